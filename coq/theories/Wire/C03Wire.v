(* wire glue for the desugaring (Comp/Desugar.v): the harness compares it with its own reference desugaring *)
(* WIRE engine=103 fn=dispatch_c03 *)
From Coq Require Import List NArith Bool.
From RPFT Require Import Base.Sexp Base.PyStr Gen.Tables Comp.Blocks Comp.Desugar Wire.BlocksWire.
Import ListNotations.
Local Open Scope N_scope.

Definition enc_seg (s : seg) : sexp :=
  match s with Lit v => L [A 0; enc_str v] | Ref v => L [A 1; enc_str v] end.
Definition enc_kind (k : rkind) : sexp :=
  A (match k with KBeginFor => 0 | KEndFor => 1 | KBeginBlock => 2 | KEndBlock => 3 | KPlain => 4 end).
Definition enc_incl (i : incl) : sexp :=
  match i with
  | IncTrue => L [A 0] | IncFalse => L [A 1] | IncRef x => L [A 2; enc_str x]
  | IncCmp x pos w => L [A 3; enc_str x; enc_bool pos; enc_str w]
  end.
Definition enc_iter (i : iterspec) : sexp :=
  match i with ILit l => L [A 0; L (map enc_str l)] | IRef x => L [A 1; enc_str x] end.
Definition enc_raw (r : raw) : sexp :=
  L [enc_kind (rw_kind r); enc_incl (rw_inc r); L (map enc_seg (rw_id r)); L (map enc_seg (rw_text r));
     L (map enc_str (rw_vars r)); enc_iter (rw_iter r)].

Definition enc_tok (t : tok) : sexp :=
  match t with TRow i x => L [A 0; enc_str i; enc_str x] | TPush => L [A 1] | TPop i => L [A 2; enc_str i] end.

Definition dispatch_c03 (fn : N) (args : list sexp) : sexp :=
  match fn, args with
  | 1, [A pol; rows; c] =>                 (* desugar; pol 0 = the policy the code configures (Tables) *)
    match dec_list dec_raw rows, dec_ctx c with
    | Some rs, Some c' =>
      match desugar (dec_policy pol) c' rs with
      | ROk out => L [A 0; L (map enc_raw out)]
      | RErr e => L [A 1; A (enc_err e)]
      end
    | _, _ => s_badinput
    end
  | 2, [A pol; rows; c] =>                 (* the tokens of the event stream of run_sheet *)
    match dec_list dec_raw rows, dec_ctx c with
    | Some rs, Some c' =>
      match run_sheet (dec_policy pol) rs c' with
      | ROk s => L [A 0; L (map enc_tok (toks (rev (p_log s))))]
      | RErr e => L [A 1; A (enc_err e)]
      end
    | _, _ => s_badinput
    end
  | _, _ => s_badinput
  end.
