(* wire glue for C04 "the exported rows mean the flow" (Exp/Means.v); uuids travel as naturals *)
(* WIRE engine=104 fn=dispatch_c04 *)
From Coq Require Import List NArith Bool.
From RPFT Require Import Base.Sexp Base.PyStr Base.SexpEq Base.Result Gen.Tables Flow.Lts Flow.Flow Flow.RowSem
     Exp.ToRows Exp.Means Exp.MeansFamily Wire.C17Wire Wire.RowSemWire.

(* the premises of to_rows_means_flow_partial on the tree under check (regenerated probes) *)
Definition all_repairs_w : bool :=
  loose_exit_rows && pairs_follow_cases && split_rows_carry_save_name && group_split_without_cases_exports.
Import ListNotations.
Local Open Scope N_scope.

(* ---- encoders of abstract rows: the inverse of RowSemWire.dec_row, i.e. the format of rowref.row_sexp *)
Definition enc_from (f : efrom) : sexp :=
  match f with FBlank => L [] | FStart => L [A 0] | FRow s => L [A 1; enc_str s] end.
Definition enc_redge (e : redge) : sexp :=
  L [enc_from (RowSem.e_from e); enc_str (c_value (RowSem.e_cond e)); enc_str (c_variable (RowSem.e_cond e));
     enc_str (c_type (RowSem.e_cond e)); enc_str (c_cname (RowSem.e_cond e))].
Definition enc_cname (c : cname) : sexp := match c with CWild => L [] | CFixed s => L [enc_str s] end.
Definition enc_wait0 (w : wait_spec) : sexp :=
  match w with WNone => L [A 0] | WMsg => L [A 1] | WTimeout s _ => L [A 2; A s] end.
Definition enc_dec0 (d : rdec) : sexp :=
  L [enc_bool (rd_random d); enc_str (rd_operand d); enc_wait0 (rd_wait d); enc_ostr (rd_result d);
     L (map (fun k : str * list (option str) * nat => L [enc_str (fst (fst k)); L (map enc_ostr (snd (fst k))); A (N.of_nat (snd k))]) (rd_cases d));
     L (map (fun c : cname * dest => enc_cname (fst c)) (rd_cats d)); enc_cname (fst (rd_default d));
     enc_option (fun c : cname * dest => enc_cname (fst c)) (rd_noresp d)].
Definition enc_eclass (c : eclass) : N :=
  match c with EAction => 0 | EWait => 1 | ESplit => 2 | EGroup => 3 | ERandom => 4 | EFlow => 5 | EOutcome => 6 end.
Definition enc_rtype (t : rtype) : sexp :=
  match t with
  | RowSem.TNode c acts d => L [A 0; A (enc_eclass c); L acts; enc_option enc_dec0 d]
  | RowSem.TGoto tg => L [A 1; L (map enc_str tg)]
  | TNoOp => L [A 2] | THard => L [A 3] | TLoose => L [A 4] | TBeginBlock => L [A 5] | TEndBlock => L [A 6]
  end.
Definition enc_rrow (r : RowSem.row) : sexp :=
  L [enc_rtype (RowSem.r_type r); enc_str (RowSem.r_id r); enc_str (r_node_name r); L (map enc_redge (RowSem.r_edges r))].

Definition dispatch_c04 (fn : N) (args : list sexp) : sexp :=
  match fn, args with
  | 1, [nb; strip; nodes] =>           (* the statement of to_rows_means_flow, tested *)
    match dec_bool nb, dec_bool strip, dec_list dec_node nodes with
    | Some nb, Some strip, Some nodes => A (means_check N N.eqb ustrN nb strip nodes)
    | _, _, _ => s_badinput
    end
  | 2, [nb; strip; nodes] =>           (* abs_rows of the export, to be compared with harness/rowref.py *)
    match dec_bool nb, dec_bool strip, dec_list dec_node nodes with
    | Some nb, Some strip, Some nodes =>
      enc_res (fun rows => L (map enc_rrow (abs_rows N ustrN strip rows))) (@to_rows N N.eqb nb nodes)
    | _, _, _ => s_badinput
    end
  | 3, [nodes; g] =>                   (* flow_of against the harness' reading of the flow file: 1 = same traces *)
    match dec_list dec_node nodes, dec_flow g with
    | Some nodes, Some g' => enc_bool (bisim_check (flow_of N ustrN nodes) g')
    | _, _ => s_badinput
    end
  | 4, [nodes] =>                      (* the family *)
    match dec_list dec_node nodes with
    | Some nodes => A (exportable_why N N.eqb nodes)
    | None => s_badinput
    end
  | 5, [nodes] =>
    match dec_list dec_node nodes with
    | Some nodes => enc_flow (flow_of N ustrN nodes)
    | None => s_badinput
    end
  | 7, [] => enc_bool all_repairs_w
  | 8, [nodes] =>
    match dec_list dec_node nodes with
    | Some nodes => enc_bool (single_rows N nodes)
    | None => s_badinput
    end
  | 6, [nb; strip; nodes] =>           (* the reference flow of the export (diagnostics) *)
    match dec_bool nb, dec_bool strip, dec_list dec_node nodes with
    | Some nb, Some strip, Some nodes =>
      enc_res (fun rows => enc_option enc_flow (rowsem nab (abs_rows N ustrN strip rows))) (@to_rows N N.eqb nb nodes)
    | _, _, _ => s_badinput
    end
  | _, _ => s_badinput
  end.
