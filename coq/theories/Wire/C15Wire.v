(* wire glue for C15 (the create_flows command: compile, then write) *)
(* WIRE engine=115 fn=dispatch_c15 *)
From Coq Require Import List NArith ZArith Bool.
From RPFT Require Import Base.Sexp Base.PyStr Base.Result Base.Json Gen.Tables
  Io.CliLog Io.CliFlow Io.CliIndex Io.CliJson Io.Cli.
Import ListNotations.
Local Open Scope N_scope.

Definition dec_seg (x : sexp) : option seg :=
  match x with
  | L [A 0; s] => option_map Lit (dec_str s)
  | L [A 1; s] => option_map Ref (dec_str s)
  | _ => None
  end.
Definition dec_tstr : sexp -> option tstr := dec_list dec_seg.

Definition dec_cond (x : sexp) : option cond :=
  match x with
  | L [a; b; c; d] =>
    match dec_str a, dec_str b, dec_str c, dec_str d with
    | Some a', Some b', Some c', Some d' => Some (mkCond a' b' c' d')
    | _, _, _, _ => None
    end
  | _ => None
  end.

Definition dec_edge (x : sexp) : option edge :=
  match x with
  | L [f; c] => match dec_tstr f, dec_cond c with
                | Some f', Some c' => Some (mkEdge f' c')
                | _, _ => None
                end
  | _ => None
  end.

Definition dec_incl (x : sexp) : option incl :=
  match x with
  | L [A 0] => Some IncTrue
  | L [A 1] => Some IncFalse
  | L [A 2; s] => option_map IncRef (dec_str s)
  | _ => None
  end.

Definition dec_hitem (x : sexp) : option hitem :=
  match x with
  | L [A 0; s] => option_map HStr (dec_str s)
  | L [A 1; l] => option_map HList (dec_list dec_str l)
  | _ => None
  end.

Definition dec_rtype (x : sexp) : option rtype :=
  match x with
  | A 0 => Some TSend | A 1 => Some TSaveValue | A 2 => Some TSaveResult | A 3 => Some TAddGroup
  | A 4 => Some TRemoveGroup | A 5 => Some TWait | A 6 => Some TSplitValue | A 7 => Some TSplitGroup
  | A 8 => Some TSplitRandom | A 9 => Some TStartFlow | A 10 => Some TWebhook | A 11 => Some TGoto
  | A 12 => Some TNoOp | A 13 => Some THardExit | A 14 => Some TLooseExit | A 15 => Some TInsert
  | A 16 => Some TBeginFor | A 17 => Some TEndFor | A 18 => Some TBeginBlock | A 19 => Some TEndBlock
  | _ => None
  end.

Definition dec_frow (x : sexp) : option frow :=
  match x with
  | L [t; id; es; inc; m; l; vs; sv; ob; A nr; url; hs; ds; dr; ta] =>
    match dec_rtype t, dec_tstr id, dec_list dec_edge es, dec_incl inc, dec_tstr m,
          dec_list dec_tstr l, dec_list dec_str vs, dec_str sv with
    | Some t', Some id', Some es', Some inc', Some m', Some l', Some vs', Some sv' =>
      match dec_str ob, dec_str url, dec_list dec_hitem hs, dec_str ds, dec_str dr, dec_list dec_str ta with
      | Some ob', Some url', Some hs', Some ds', Some dr', Some ta' =>
        Some (mkRow t' id' es' inc' m' l' vs' sv' ob' nr url' hs' ds' dr' ta')
      | _, _, _, _, _, _ => None
      end
    | _, _, _, _, _, _, _, _ => None
    end
  | _ => None
  end.

Definition dec_argdef (x : sexp) : option argdef :=
  match x with
  | L [a; b] => match dec_str a, dec_str b with Some a', Some b' => Some (mkAD a' b') | _, _ => None end
  | _ => None
  end.

Definition dec_itype (x : sexp) : option itype :=
  match x with
  | A 0 => Some ICreateFlow | A 1 => Some ITemplateDef | A 2 => Some IDataSheet | A 3 => Some IContentIndex
  | A 4 => Some ICampaign | A 5 => Some ITriggers | A 6 => Some IIgnore | A 7 => Some IOther
  | _ => None
  end.
Definition dec_op (x : sexp) : option op :=
  match x with
  | A 0 => Some OpNone | A 1 => Some OpConcat | A 2 => Some OpFilter | A 3 => Some OpSort | A 4 => Some OpOther
  | _ => None
  end.

Definition dec_ixrow (x : sexp) : option ixrow :=
  match x with
  | L [t; dr; sh; nw; ds; drw; ta; ad; md; o; g] =>
    match dec_itype t, dec_bool dr, dec_list dec_str sh, dec_str nw, dec_str ds, dec_str drw with
    | Some t', Some dr', Some sh', Some nw', Some ds', Some drw' =>
      match dec_list dec_str ta, dec_list dec_argdef ad, dec_str md, dec_op o, dec_str g with
      | Some ta', Some ad', Some md', Some o', Some g' =>
        Some (mkIx t' dr' sh' nw' ds' drw' ta' ad' md' o' g')
      | _, _, _, _, _ => None
      end
    | _, _, _, _, _, _ => None
    end
  | _ => None
  end.

Definition dec_crow (x : sexp) : option crow :=
  match x with
  | L [b; m; f] => match dec_bool b, dec_str m, dec_str f with
                   | Some b', Some m', Some f' => Some (mkCR b' m' f')
                   | _, _, _ => None
                   end
  | _ => None
  end.
Definition dec_trow (x : sexp) : option trow :=
  match x with
  | L [b; k; f; g; e] =>
    match dec_bool b, dec_list dec_str k, dec_str f, dec_list dec_str g, dec_list dec_str e with
    | Some b', Some k', Some f', Some g', Some e' => Some (mkTR b' k' f' g' e')
    | _, _, _, _, _ => None
    end
  | _ => None
  end.

Definition dec_sheet (x : sexp) : option sheet :=
  match x with
  | L [A 0; rows] => option_map SIndex (dec_list dec_ixrow rows)
  | L [A 1; rows] => option_map SFlow (dec_list dec_frow rows)
  | L [A 2; cols; rows] =>
    match dec_list dec_str cols, dec_list (dec_pair dec_str (dec_list dec_str)) rows with
    | Some c, Some r => Some (SData c r)
    | _, _ => None
    end
  | L [A 3; rows] => option_map SCampaign (dec_list dec_crow rows)
  | L [A 4; rows] => option_map STriggers (dec_list dec_trow rows)
  | _ => None
  end.

Definition dec_workbook : sexp -> option workbook := dec_list (dec_pair dec_str dec_sheet).
Definition dec_dm : sexp -> option (option (list str)) := dec_option (dec_list dec_str).

Definition enc_doc (d : doc) : sexp :=
  L [A 0; enc_list enc_str (d_flows d); enc_list enc_str (d_campaigns d); enc_nat (d_triggers d)].

Definition enc_compile (r : result cls doc) : sexp :=
  match r with Ok d => enc_doc d | Err c => s_err (cls_code c) end.

Definition dispatch_c15 (fn : N) (args : list sexp) : sexp :=
  match fn, args with
  (* 1: compile fuel dm workbook *)
  | 1, [A fuel; dm; wb] =>
    match dec_dm dm, dec_workbook wb with
    | Some dm', Some wb' => enc_compile (compile (N.to_nat fuel) wb' dm')
    | _, _ => s_badinput
    end
  (* 2: the command on a file system with at most one pre-existing file at the output path:
        fuel dm workbook (optional old content) -> (exit status, optional new content) *)
  | 2, [A fuel; dm; wb; old] =>
    match dec_dm dm, dec_workbook wb, dec_option dec_str old with
    | Some dm', Some wb', Some old' =>
      let fs0 : fs := match old' with Some c => [(out_path, c)] | None => [] end in
      let r := cli (N.to_nat fuel) wb' dm' out_path fs0 in
      L [A (fst r); enc_option enc_str (fs_read (snd r) out_path)]
    | _, _, _ => s_badinput
    end
  (* 3: json.dump(value, indent=4) *)
  | 3, [j] => match dec_json 64 j with Some v => enc_str (serialize v) | None => s_badinput end
  (* 4: parse a JSON text *)
  | 4, [s] => match dec_str s with
              | Some t => enc_option enc_json (parse_json t)
              | None => s_badinput
              end
  (* 5: the invocation environments of the regenerated table as the model reads them:
        (id, start, does a CRITICAL record end the process with a non-zero status, the status with
        which a CRITICAL record / the failed start ends it, is it like the default configuration,
        digest of the names of the matrix) *)
  | 5, [] =>
    L [A c15_log_configs_digest;
       enc_list (fun c : log_config =>
                   L [A (lc_id c); A (lc_start c); enc_bool (stops_at c lvl_critical);
                      A (match (if started c then log_at c lvl_critical else Some (snd (lc_observed c))) with
                         | Some e => e | None => 0 end);
                      enc_bool (like_default c)]) log_configs]
  (* 6: the command under configuration i: fuel dm workbook (optional old content) i ->
        (1 status (optional new content)) | (0) = the model does not say *)
  | 6, [A fuel; dm; wb; old; A i] =>
    match dec_dm dm, dec_workbook wb, dec_option dec_str old, find_config i with
    | Some dm', Some wb', Some old', Some cfg =>
      let fs0 : fs := match old' with Some c => [(out_path, c)] | None => [] end in
      match cli_in cfg (N.to_nat fuel) wb' dm' out_path fs0 with
      | Some r => L [A 1; A (fst r); enc_option enc_str (fs_read (snd r) out_path)]
      | None => L [A 0]
      end
    | _, _, _, _ => s_badinput
    end
  | _, _ => s_badinput
  end.
