(* wire glue for C10 (content index fold, tag matcher) *)
(* WIRE engine=110 fn=dispatch_c10 *)
From Coq Require Import List NArith ZArith Bool.
From RPFT Require Import Base.Sexp Base.PyStr Base.Result Gen.Tables Index.TagMatch Index.Index.
Import ListNotations.
Local Open Scope N_scope.

Definition obind {S T} (o : option S) (f : S -> option T) : option T :=
  match o with Some x => f x | None => None end.
Notation "'olet' x := a 'in' b" := (obind a (fun x => b)) (at level 200, x pattern, a at level 100, b at level 200).

Definition dec_strs (x : sexp) : option (list str) := dec_list dec_str x.

(* row = (type status (tags) (sheets) new data_sheet data_row_id group targ) *)
Definition dec_irow (x : sexp) : option irow :=
  match x with
  | L [ty; status; tags; sheets; new; ds; dr; grp; targ] =>
    olet ty := dec_str ty in olet status := dec_str status in olet tags := dec_strs tags in
    olet sheets := dec_strs sheets in olet new := dec_str new in olet ds := dec_str ds in
    olet dr := dec_str dr in olet grp := dec_str grp in olet targ := dec_str targ in
    Some (mk_irow ty status tags sheets new ds dr grp targ)
  | _ => None
  end.

(* body = (0 rows) | (1) | (2 ids) | (3) | (4 flows) *)
Definition dec_body (x : sexp) : option body :=
  match x with
  | L [A 0; rows] => option_map BIndex (dec_list dec_irow rows)
  | L [A 1] => Some BFlow
  | L [A 2; ids] => option_map BData (dec_strs ids)
  | L [A 3] => Some BCampaign
  | L [A 4; fl] => option_map BTriggers (dec_strs fl)
  | _ => None
  end.

Definition dec_workbook (x : sexp) : option workbook := dec_list (dec_pair dec_str dec_body) x.

Definition err_code (e : err) : N :=
  match e with
  | ETags => 1 | ENoIndex => 2 | ESheetNames => 3 | ENotFound => 4 | EKind => 5 | EKey => 6
  | ERowId => 7 | EConcat => 8 | ETrigger => 9 | EOutOfFuel => 99
  end.

Definition enc_sid (i : sid) : sexp := L [enc_nat (fst i); enc_str (snd i)].
Definition enc_dmark (d : dmark) : sexp := L [enc_sid (fst d); enc_nat (snd d)].
Definition enc_oflow (f : oflow) : sexp :=
  L [enc_str (of_name f); enc_sid (of_sheet f); enc_str (of_targ f); enc_option enc_dmark (of_data f)].
Definition enc_ocamp (c : ocamp) : sexp := L [enc_str (oc_name c); enc_sid (oc_sheet c); enc_str (oc_group c)].
Definition enc_otrig (t : otrig) : sexp := L [enc_sid (ot_sheet t); enc_nat (ot_row t); enc_str (ot_flow t)].

Definition enc_output (o : output) : sexp :=
  L [A 0; enc_list enc_oflow (o_flows o); enc_list enc_ocamp (o_camps o); enc_list enc_otrig (o_trigs o)].

Definition enc_z (z : Z) : sexp :=
  match z with
  | Z0 => L [A 0; A 0]
  | Zpos p => L [A 0; A (Npos p)]
  | Zneg p => L [A 1; A (Npos p)]
  end.

(* nesting depth allowed before the model gives up (the implementation's own limit is the
   interpreter's recursion limit) *)
Definition wire_fuel : nat := 40.

Definition dispatch_c10 (fn : N) (args : list sexp) : sexp :=
  match fn, args with
  | 1, [params; wbs] =>
    match dec_strs params, dec_list dec_workbook wbs with
    | Some params, Some wbs =>
      match create_flows wire_fuel params wbs with
      | Ok o => enc_output o
      | Err e => s_err (err_code e)
      end
    | _, _ => s_badinput
    end
  | 2, [s] => match dec_str s with Some s => enc_option enc_z (py_int s) | None => s_badinput end
  | 3, [params; tags] =>
    match dec_strs params, dec_strs tags with
    | Some params, Some tags =>
      match tag_matcher params with
      | Some pats => enc_bool (matches pats tags)
      | None => s_err 1
      end
    | _, _ => s_badinput
    end
  | _, _ => s_badinput
  end.
