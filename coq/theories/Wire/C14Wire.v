(* wire glue for engine 114 (C14: csv codec, tablib glue, _sanitize, table<->dicts) *)
(* WIRE engine=114 fn=dispatch_c14 *)
From Coq Require Import List NArith Bool.
From RPFT Require Import Base.Sexp Base.PyStr Base.Result Gen.Tables Io.Csv Io.Sanitize Io.TreeFlags.
Import ListNotations.
Local Open Scope N_scope.

Definition enc_rows (rows : list (list str)) : sexp := enc_list (enc_list enc_str) rows.
Definition dec_rows (x : sexp) : option (list (list str)) := dec_list (dec_list dec_str) x.

Definition err_code (e : io_err) : N :=
  match e with
  | EFieldLimit => 1 | ENewlineUnquoted => 2 | EInvalidDimensions => 3
  | EIndex => 4 | EType => 5 | EAttr => 6 | EFormat => 7
  end.

Definition enc_res {T} (f : T -> sexp) (r : result io_err T) : sexp :=
  match r with Ok v => L [A 0; f v] | Err e => s_err (err_code e) end.

Definition enc_table (t : table str str) : sexp := L [enc_list enc_str (hdr t); enc_rows (rws t)].
Definition dec_table (x : sexp) : option (table str str) :=
  match x with
  | L [h; r] => match dec_list dec_str h, dec_rows r with
                | Some h', Some r' => Some (mkT h' r')
                | _, _ => None
                end
  | _ => None
  end.

Definition enc_xtable (t : table xcell str) : sexp :=
  L [enc_list (enc_option enc_str) (hdr t); enc_rows (rws t)].

Definition enc_jsheet (j : jsheet) : sexp :=
  match j with
  | JDicts l => L [A 0; enc_list (enc_list (enc_pair enc_str enc_str)) l]
  | JLists l => L [A 1; enc_rows l]
  | JTable h l => L [A 2; enc_list enc_str h; enc_rows l]
  end.
Definition dec_jsheet (x : sexp) : option jsheet :=
  match x with
  | L [A 0; l] => match dec_list (dec_list (dec_pair dec_str dec_str)) l with Some v => Some (JDicts v) | None => None end
  | L [A 1; l] => match dec_rows l with Some v => Some (JLists v) | None => None end
  | L [A 2; h; l] => match dec_list dec_str h, dec_rows l with Some h', Some v => Some (JTable h' v) | _, _ => None end
  | _ => None
  end.

Definition with_opt {T} (o : option T) (f : T -> sexp) : sexp :=
  match o with Some v => f v | None => s_badinput end.

Definition rd := csv_read csv_delimiter csv_quotechar csv_field_limit.
Definition wr := csv_write csv_delimiter csv_quotechar csv_lineterminator.

Definition dispatch_c14 (fn : N) (args : list sexp) : sexp :=
  match fn, args with
  | 1, [r] => with_opt (dec_rows r) (fun rows => enc_str (wr rows))
  | 2, [s] => with_opt (dec_str s) (fun txt => enc_res enc_rows (rd txt))
  | 3, [s] => with_opt (dec_str s) (fun txt => enc_str (translate txt))
  | 4, [s] => with_opt (dec_str s) (fun txt =>
                enc_res enc_table (load_csv_text csv_delimiter csv_quotechar csv_field_limit load_csv_translated txt))
  | 5, [t] => with_opt (dec_table t) (fun t =>
                enc_str (csv_export_set csv_delimiter csv_quotechar csv_lineterminator t))
  | 6, [g] => with_opt (dec_list (dec_list (dec_option dec_str)) g) (fun g => enc_res enc_xtable (read_xlsx_sheet g))
  | 7, [t] => with_opt (dec_table t) (fun t => enc_jsheet (to_dicts t))
  | 8, [j] => with_opt (dec_jsheet j) (fun j => enc_res enc_table (from_dicts j))
  | 9, [r] => with_opt (dec_rows r) (fun recs => enc_res enc_table (csv_import_set recs))
  | 10, [s] => with_opt (dec_str s) (fun txt => enc_res enc_rows (rd (translate txt)))
  | 11, [s] => with_opt (dec_str s) (fun txt =>
                enc_res enc_table (read_csv_sheet csv_delimiter csv_quotechar csv_field_limit load_csv_translated tree_flags txt))
  | 12, [t] => with_opt (dec_table t) (fun t => enc_jsheet (to_json_sheet tree_flags t))
  | 13, [j] => with_opt (dec_jsheet j) (fun j => enc_res enc_table (read_json_sheet tree_flags j))
  | 14, [] => L (map (fun b : bool => A (if b then 1 else 0))
                     [csv_reader_drops_empty_rows; json_reader_drops_empty_rows; json_reader_table_form; to_json_table_form])
  | _, _ => s_badinput
  end.
