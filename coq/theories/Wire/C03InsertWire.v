(* wire glue for the typed template arguments of insert_as_block rows (Comp/InsertArgs.v) *)
(* WIRE engine=203 fn=dispatch_c03_insert *)
From Coq Require Import List NArith ZArith Bool.
From RPFT Require Import Base.Sexp Base.PyStr Base.Result Gen.Tables Cell.Cell Index.Args Tmpl.MiniJinja Comp.InsertArgs Wire.C16Wire.
Import ListNotations.
Local Open Scope N_scope.

Definition dec_argdef (x : sexp) : option argdef :=
  match x with
  | L [n; t; d] => match dec_str n, dec_str t, dec_str d with
                   | Some n', Some t', Some d' => Some (mk_argdef n' t' d')
                   | _, _, _ => None
                   end
  | _ => None
  end.

Definition dec_tsheet (x : sexp) : option (str * value) :=
  match x with
  | L [n; v] => match dec_str n, dec_value 32 v with Some n', Some v' => Some (n', v') | _, _ => None end
  | _ => None
  end.

Definition dec_ocell (x : sexp) : option (option cell) :=
  match x with
  | L [] => Some None
  | L [c] => option_map Some (dec_cell c)
  | _ => None
  end.

Definition berr_code (e : berr) : N :=
  match e with
  | BDoubly _ => 1 | BRequired _ => 2 | BUnknownSheet _ => 3 | BUnhashable => 4
  | BCell e => 100 + terr_code e
  end.

Definition enc_tctx (c : tctx) : sexp := L (map (fun kv => L [enc_str (fst kv); enc_value (snd kv)]) c).

Definition dispatch_c03_insert (fn : N) (args : list sexp) : sexp :=
  match fn, args with
  | 1, [L defs; L sheets; row; outer; cell] =>
    (* the context an inserted template is instantiated in + the text of the argument cell (MiniJinja.show_cell) *)
    match dec_list_aux dec_argdef defs, dec_list_aux dec_tsheet sheets, dec_ctx row, dec_ctx outer, dec_ocell cell with
    | Some ds, Some ss, Some r, Some o, Some oc =>
      match insert_context_m ss ds r o oc with
      | Ok c => L [enc_tctx c; enc_str (match oc with Some c' => show_cell c' | None => [] end)]
      | Err e => s_err (berr_code e)
      end
    | _, _, _, _, _ => s_badinput
    end
  | 2, [L defs; L sheets; row; L vals] =>
    (* the binding alone, on an argument list of objects *)
    match dec_list_aux dec_argdef defs, dec_list_aux dec_tsheet sheets, dec_ctx row, dec_list_aux (dec_value 32) vals with
    | Some ds, Some ss, Some r, Some vs =>
      match bind_args ss ds vs r with
      | Ok c => L [enc_tctx c; A (if too_many_warning (length ds) vs then 1 else 0)]
      | Err e => s_err (berr_code e)
      end
    | _, _, _, _ => s_badinput
    end
  | _, _ => s_badinput
  end.
