(* wire glue for engine 107 (row codec, property C07) *)
(* WIRE engine=107 fn=dispatch_c07 *)
From Coq Require Import List NArith Bool.
From RPFT Require Import Base.Sexp Base.PyStr Base.Result Gen.Tables Cell.Cell Row.Ty Row.Layout Row.RowParse Row.RowUnparse Row.FlowRow Row.RoundTrip Row.CtxRoundTripFacts Row.FlowRowFacts Row.Session Io.XlsxCell Io.SheetHeaders.
Import ListNotations.
Local Open Scope N_scope.

Definition dec_strs (x : sexp) : option (list str) := dec_list dec_str x.

Definition dispatch_c07 (fn : N) (args : list sexp) : sexp :=
  match fn, args with
  (* 1: parse_row (rowmodel, cells) *)
  | 1, [m; c] =>
    match dec_rowmodel m, dec_cells c with
    | Some m', Some c' => enc_res enc_value (parse_row m' c')
    | _, _ => s_badinput
    end
  (* 2: unparse_row (rowmodel, value, targets, excluded) *)
  | 2, [m; v; t; x] =>
    match dec_rowmodel m, dec_value 64 v, dec_strs t, dec_strs x with
    | Some m', Some v', Some t', Some x' => enc_res enc_cells (unparse_row (rm_ty m') v' t' x')
    | _, _, _, _ => s_badinput
    end
  (* 3: matches_headers (headers, comps) *)
  | 3, [h; c] =>
    match dec_strs h, dec_strs c with
    | Some h', Some c' => enc_bool (matches_headers h' c')
    | _, _ => s_badinput
    end
  (* 4: parse_row of the regenerated flow row model *)
  | 4, [c] =>
    match dec_cells c with
    | Some c' => enc_res enc_value (flow_parse c')
    | None => s_badinput
    end
  (* 5: unparse_row of the regenerated flow row model with the export layout *)
  | 5, [v; A s] =>
    match dec_value 64 v with
    | Some v' => enc_res enc_cells (flow_unparse v' (negb (s =? 0)))
    | None => s_badinput
    end
  (* 6: the domain of the round-trip theorem (row_dom) for (rowmodel, value, targets) *)
  | 6, [m; v; t] =>
    match dec_rowmodel m, dec_value 64 v, dec_strs t with
    | Some m', Some v', Some t' => enc_bool (row_dom (rm_ty m') v' t')
    | _, _, _ => s_badinput
    end
  (* 7: the domain of the flow-row round-trip theorem (flow_dom) *)
  | 7, [v] =>
    match dec_value 64 v with
    | Some v' => enc_bool (flow_dom v')
    | None => s_badinput
    end
  (* 8: a session (family of classes, operations on their long-lived parsers): the result of every operation *)
  | 8, [L fam; L ops] =>
    match dec_list_aux dec_decl fam, dec_list_aux dec_op ops with
    | Some fam', Some ops' => L (map enc_opres (run_session fam' ops'))
    | _, _ => s_badinput
    end
  (* 9: names and defaults of the fields of every class of a family (derived classes resolved) *)
  | 9, [L fam] =>
    match dec_list_aux dec_decl fam with
    | Some fam' => L (map enc_class_fields (classes fam'))
    | None => s_badinput
    end
  (* 10: one cell text through RowDataSheet.export(xlsx) + XLSXSheetReader *)
  | 10, [t] =>
    match dec_str t with
    | Some t' => enc_str (xlsx_cell_roundtrip t')
    | None => s_badinput
    end
  (* 11: the columns RowDataSheet._get_headers gives a sheet whose rows write these headers (as a set) *)
  | 11, [L rows] =>
    match dec_list_aux dec_strs rows with
    | Some rows' => L (map enc_str (sheet_header_set rows'))
    | None => s_badinput
    end
  | _, _ => s_badinput
  end.
