(* C02 — the compiled flow has exactly the control flow the sheet rows describe.
   The quantifier "for every sequence of contact replies, field and group values, random
   draws and sub-flow/webhook/airtime outcomes" is discharged by theorem: for every pair of
   flows the checker accepts, every finite trace of one is matched by the other.  The
   quantifier over SHEETS is discharged per generated sheet by running the checker between
   RowSem(sheet) and the implementation's output (translation validation). *)
From Coq Require Import List NArith Bool.
From RPFT Require Import Base.Sexp Base.SexpEq Base.Result Gen.Tables Flow.Lts Flow.Flow Flow.FlowFacts Flow.RowSem
     Comp.Compile Comp.CompileExamples Comp.CompileExampleFacts Comp.Refine Comp.RefineStep Comp.RefineFinal Comp.RefineFrag Comp.RefineExamples.
Import ListNotations.

(* the checker is sound for any label-matching relation (used with wildcard matching on
   category names the sheet does not fix) *)
Theorem C02_sim_check_sound : forall lm f g,
  sim_check lm f g = true ->
  forall t, traces f t -> exists t', traces g t' /\ Forall2 (ematch sexp lm) t t'.
Proof. exact sim_check_sound. Qed.
Print Assumptions C02_sim_check_sound.

(* with label equality: the two flows have exactly the same traces *)
Theorem C02_bisim_check_sound : forall f g,
  bisim_check f g = true -> forall t, traces f t <-> traces g t.
Proof. exact bisim_check_sound. Qed.
Print Assumptions C02_bisim_check_sound.

(* the checker is not vacuous: it accepts a pair of different flows with equal behaviour
   and rejects a pair that differs *)
Theorem C02_checker_nonvacuous :
  bisim_check ex_flow1 ex_flow2 = true /\ bisim_check ex_flow1 ex_flow3 = false.
Proof. exact bisim_nonvacuous. Qed.
Print Assumptions C02_checker_nonvacuous.

(* ------------------------------------------------------------------------------------------------------------
   The compiler itself (model Comp/Compile.v, tied to the code by differential execution, see C01): FOR EVERY SHEET
   OF THE FRAGMENT the compiled flow and the reference meaning of the rows (Flow/RowSem.v) have the same traces, in
   both directions, labels matched up to the names the sheet does not fix (wildcards on the reference side).

   The fragment (Comp/RefineStep.v: row_ok, decided by Comp/Refine.v: fragb): action rows, wait_for_response,
   split_by_value, split_by_group, start_new_flow, call_webhook, transfer_airtime, go_to, no_op (forwarding and
   decision), hard_exit, loose_exit, begin_block/end_block (nested); conditional edges from action rows (implicit
   routers and waits), re-targeting, anonymous rows, blank `from`; the first row is a node row.
   `reads_same`: the code of this run reads the padding entries of the row (blank edges.N.* cells of a rectangular
   sheet) as the reference does, i.e. not as edges; part of edge_ok: it compiles a has_group test of the edge as
   the reference reads it, [_, group name] (both decided below by the probed constants of Gen/Tables.v).
   NOT in the fragment (what is missing for the full statement compile_refines_rowsem): named categories on edges
   (condition_name), split_random rows, node names / given `_nodeId`s (merged rows).  For those the statement is
   decided per sheet by the verified checker (translation validation, C02_sim_check_sound). *)
Theorem C02_compile_refines_rowsem_partial : forall fresh,
  (forall a b : nat, fresh a = fresh b -> a = b) -> (forall k, fresh k <> hard_exit_sentinel) ->
  forall validate name rows f ref,
  (forall us, validate us = None -> NoDup us) ->
  Forall row_ok rows -> Forall reads_same rows -> no_given rows -> starts_with_node rows ->
  compile_with fresh validate name rows = Ok f -> rowsem nab (map cr_row rows) = Some ref ->
  (forall t, traces ref t -> exists t', traces f t' /\ Forall2 (ematch sexp smatch) t t')
  /\ (forall t, traces f t -> exists t', traces ref t' /\ Forall2 (ematch sexp (fun a b => smatch b a)) t t').
Proof. exact compile_refines_rowsem_partial. Qed.
Print Assumptions C02_compile_refines_rowsem_partial.

(* decided for the code of this run: where does it read rows as the reference does?  With the repairs a05766f and
   f02a865 (and the has_group repair of NoOpNodeGroup.add_exit, a candidate patch) everywhere; before them only
   in rows without padding entries / in conditions that are not has_group tests. *)
Theorem C02_reading_agrees_decided :
  (if padding_edges_dropped_at_read then forall cr, reads_same cr
   else forall cr, no_paddingb (r_edges (cr_row cr)) = true -> reads_same cr)
  /\ (if has_group_edges_by_name && has_group_by_name_from_noop
      then forall c, row_args c = ref_args c /\ noop_args c = ref_args c
      else forall c, has_group_typed c = false -> row_args c = ref_args c /\ noop_args c = ref_args c).
Proof. exact reading_agrees_decided. Qed.
Print Assumptions C02_reading_agrees_decided.

(* the boolean test the harness evaluates on every generated sheet is sound for the hypotheses above *)
Theorem C02_fragb_sound : forall rows,
  fragb rows = true -> Forall row_ok rows /\ Forall reads_same rows /\ no_given rows /\ starts_with_node rows.
Proof. exact fragb_sound. Qed.
Print Assumptions C02_fragb_sound.

(* the executable supply, the validation of the code of this run *)
Theorem C02_compile_refines_rowsem_std : forall name rows f ref,
  compile_checks_node_uuids = true -> fragb rows = true ->
  compile std_fresh name rows = Ok f -> rowsem nab (map cr_row rows) = Some ref ->
  (forall t, traces ref t -> exists t', traces f t' /\ Forall2 (ematch sexp smatch) t t')
  /\ (forall t, traces f t -> exists t', traces ref t' /\ Forall2 (ematch sexp (fun a b => smatch b a)) t t').
Proof. exact compile_refines_rowsem_std. Qed.
Print Assumptions C02_compile_refines_rowsem_std.

(* non-vacuity: directed sheets of the harness lie in the fragment, compile (compiled nodes) and have a reference
   meaning (reference nodes): an action row with conditional edges (implicit router: 6 vs 5 nodes), a go_to cycle,
   no_op forwarding and a no_op decision, nested blocks with a hard exit, enter-flow / webhook / airtime outcomes,
   hard and loose exits *)
Example C02_refines_implicit_nonvacuous : refines_ex ex_implicit 6 5.
Proof. exact refines_ex_implicit. Qed.
Print Assumptions C02_refines_implicit_nonvacuous.
Example C02_refines_goto_cycle_nonvacuous : refines_ex ex_goto_cycle 3 3.
Proof. exact refines_ex_goto_cycle. Qed.
Print Assumptions C02_refines_goto_cycle_nonvacuous.
Example C02_refines_noop_nonvacuous : refines_ex ex_noop 9 9.
Proof. exact refines_ex_noop. Qed.
Print Assumptions C02_refines_noop_nonvacuous.
Example C02_refines_blocks_nonvacuous : refines_ex ex_blocks 8 8.
Proof. exact refines_ex_blocks. Qed.
Print Assumptions C02_refines_blocks_nonvacuous.
Example C02_refines_outcome_nonvacuous : refines_ex ex_outcome 9 9.
Proof. exact refines_ex_outcome. Qed.
Print Assumptions C02_refines_outcome_nonvacuous.
Example C02_refines_exits_nonvacuous : refines_ex ex_exits 3 3.
Proof. exact refines_ex_exits. Qed.
Print Assumptions C02_refines_exits_nonvacuous.
