(* C02 — the compiled flow has exactly the control flow the sheet rows describe.
   The quantifier "for every sequence of contact replies, field and group values, random
   draws and sub-flow/webhook/airtime outcomes" is discharged by theorem: for every pair of
   flows the checker accepts, every finite trace of one is matched by the other.  The
   quantifier over SHEETS is discharged per generated sheet by running the checker between
   RowSem(sheet) and the implementation's output (translation validation). *)
From Coq Require Import List NArith Bool.
From RPFT Require Import Base.Sexp Base.SexpEq Base.PyStr Base.Result Gen.Tables Flow.Lts Flow.Flow Flow.FlowFacts Flow.RowSem
     Comp.Compile Comp.CompileExamples Comp.CompileExampleFacts Comp.Refine Comp.RefineStep Comp.RefineFinal Comp.RefineFrag Comp.RefineExamples
     Comp.RefineRefuted Comp.RefineSheet Comp.CompileNames.
Import ListNotations.

(* the checker is sound for any label-matching relation (used with wildcard matching on
   category names the sheet does not fix) *)
Theorem C02_sim_check_sound : forall lm f g,
  sim_check lm f g = true ->
  forall t, traces f t -> exists t', traces g t' /\ Forall2 (ematch sexp lm) t t'.
Proof. exact sim_check_sound. Qed.
Print Assumptions C02_sim_check_sound.

(* with label equality: the two flows have exactly the same traces *)
Theorem C02_bisim_check_sound : forall f g,
  bisim_check f g = true -> forall t, traces f t <-> traces g t.
Proof. exact bisim_check_sound. Qed.
Print Assumptions C02_bisim_check_sound.

(* the checker is not vacuous: it accepts a pair of different flows with equal behaviour
   and rejects a pair that differs *)
Theorem C02_checker_nonvacuous :
  bisim_check ex_flow1 ex_flow2 = true /\ bisim_check ex_flow1 ex_flow3 = false.
Proof. exact bisim_nonvacuous. Qed.
Print Assumptions C02_checker_nonvacuous.

(* ------------------------------------------------------------------------------------------------------------
   The compiler itself (model Comp/Compile.v, tied to the code by differential execution, see C01): FOR EVERY SHEET
   of the core row vocabulary the compiled flow and the reference meaning of the rows (Flow/RowSem.v) have the same
   traces, in both directions, labels matched up to the names the sheet does not fix (wildcards on the reference
   side) - action rows, wait_for_response, split_by_value, split_by_group, split_random, start_new_flow,
   call_webhook, transfer_airtime, go_to, no_op (forwarding and decision), hard_exit, loose_exit,
   begin_block/end_block (nested); conditional edges from action rows (implicit routers and waits), re-targeting,
   anonymous rows, blank `from`; named categories (two tests that name the same category share it, the edge
   written last says where it leads), named / unnamed / re-targeted buckets; node names and given `_nodeId`s (action
   rows merged into one node); any first row (both flows start at the first node in sheet order).

   What is left of premises (Comp/RefineStep.v: row_ok, decided by the executable Comp/Refine.v: fragb):
   (1) the INPUT ENCODING (what harness/rowref.py + comp_corr.py produce for a row): the abstract type of a node row
       is the one of its kind (class, initial decision, at most the one action); a given `_nodeId` is the row's node
       name and is not the hard-exit marker;
   (2) `reads_same` and the argument clauses of edge_ok: the code of this run reads the row as the reference does -
       blank padding entries are not edges, a has_group test names its group - DECIDED by the probed constants of
       Gen/Tables.v (C02_reading_agrees_decided): on a tree with the repairs a05766f, f02a865, 7eafa08 they hold of
       every row;
   (3) NO NAME CLASH: G : GenNames is any set of names that holds "Other" and, for every unnamed condition of the
       sheet, the names generate_category_name may invent for it; an EXPLICIT category name must lie outside G and
       differ from "No Response", an explicit bucket name must not be one of the names "Bucket <n>"
       RandomRouter.add_choice invents.  `sheet_names rows` (Comp/RefineFrag.v) is the least such G of a sheet.
   Premise (3) is DECIDED by the probed constant explicit_names_claimed (C02_names_decided): on a tree with the repair of
   the finding category-name-clash it is True of every condition; on a tree without it the statement without (3) is
   FALSE of the faithful model (C02_clash_*_decided below).  As long as the repair is not in the tree the theorem keeps
   the suffix _partial. *)
Theorem C02_compile_refines_rowsem_partial : forall (G : GenNames) fresh,
  (forall a b : nat, fresh a = fresh b -> a = b) -> (forall k, fresh k <> hard_exit_sentinel) ->
  forall validate name rows f ref,
  (forall us, validate us = None -> NoDup us) ->
  Forall (@row_ok G) rows -> Forall reads_same rows ->
  compile_with fresh validate name rows = Ok f -> rowsem nab (map cr_row rows) = Some ref ->
  (forall t, traces ref t -> exists t', traces f t' /\ Forall2 (ematch sexp smatch) t t')
  /\ (forall t, traces f t -> exists t', traces ref t' /\ Forall2 (ematch sexp (fun a b => smatch b a)) t t').
Proof. exact @compile_refines_rowsem_partial. Qed.
Print Assumptions C02_compile_refines_rowsem_partial.

(* the premise on explicit category names is decided by the probed constant explicit_names_claimed.  On a tree where
   SwitchRouter.get_or_create_category looks an explicit name up among ALL categories of the router (the finding
   category-name-clash) the statement without that premise is FALSE: three sheets (a wait_for_response row and two
   message rows each) compile and have a meaning, with an input/outcome sequence of the reference flow that NO trace of
   the compiled flow matches - a category named like the name invented for an earlier test ("yes" -> "Yes"), like the
   default category ("Other"), like the No Response category (replayed on the implementation: findings.d/C02.json).
   On a tree where an explicit name claims its name (the repair) the first sheet compiles to a flow the verified checker
   accepts against the reference and the other two are refused - and cname_ok, the premise, is True (C02_names_decided). *)
Theorem C02_clash_generated_name_decided : if explicit_names_claimed then accepted ex_clash_gen else not_refined ex_clash_gen.
Proof. exact clash_generated_name_decided. Qed.
Print Assumptions C02_clash_generated_name_decided.
Theorem C02_clash_default_name_decided :
  if explicit_names_claimed then compile std_fresh ex_name ex_clash_other = Err ECatNameTaken else not_refined ex_clash_other.
Proof. exact clash_default_name_decided. Qed.
Print Assumptions C02_clash_default_name_decided.
Theorem C02_clash_no_response_name_decided :
  if explicit_names_claimed then compile std_fresh ex_name ex_clash_noresp = Err ECatNameTaken else not_refined ex_clash_noresp.
Proof. exact clash_no_response_name_decided. Qed.
Print Assumptions C02_clash_no_response_name_decided.

Theorem C02_names_decided : forall (G : GenNames) c,
  if explicit_names_claimed then @cname_ok G c
  else @cname_ok G c <-> match c_cname c with [] => @gen_ok G c | nm => ~ @gname G nm /\ nm <> s_NoResponse end.
Proof. exact @names_decided. Qed.
Print Assumptions C02_names_decided.

(* decided for the code of this run: where does it read rows as the reference does?  With the repairs a05766f and
   f02a865 (and the has_group repair of NoOpNodeGroup.add_exit, a candidate patch) everywhere; before them only
   in rows without padding entries / in conditions that are not has_group tests. *)
Theorem C02_reading_agrees_decided :
  (if padding_edges_dropped_at_read then forall cr, reads_same cr
   else forall cr, no_paddingb (r_edges (cr_row cr)) = true -> reads_same cr)
  /\ (if has_group_edges_by_name && has_group_by_name_from_noop
      then forall c, row_args c = ref_args c /\ noop_args c = ref_args c
      else forall c, has_group_typed c = false -> row_args c = ref_args c /\ noop_args c = ref_args c).
Proof. exact reading_agrees_decided. Qed.
Print Assumptions C02_reading_agrees_decided.

(* the same over SHEET ROWS (Comp/RefineSheet.v): a sheet row is one value - type with node kind and action payload, row
   id, node name, `_nodeId`, edges - and what the reference reads (row_of) and what the compiler reads (crow_of) are
   functions of it, as harness/rowref.py and comp_corr.py compute them: premise (1), the input encoding, is a definition.
   Left: edge_ok of every edge and `_nodeId` <> the hard-exit marker (srow_ok), reads_same. *)
Theorem C02_compile_refines_rowsem_sheet_partial : forall (G : GenNames) fresh validate name (rows : list srow) f ref,
  (forall a b : nat, fresh a = fresh b -> a = b) -> (forall k, fresh k <> hard_exit_sentinel) ->
  (forall us, validate us = None -> NoDup us) ->
  Forall (@srow_ok G) rows -> Forall reads_same (map crow_of rows) ->
  compile_with fresh validate name (map crow_of rows) = Ok f -> rowsem nab (map row_of rows) = Some ref ->
  (forall t, traces ref t -> exists t', traces f t' /\ Forall2 (ematch sexp smatch) t t')
  /\ (forall t, traces f t -> exists t', traces ref t' /\ Forall2 (ematch sexp (fun a b => smatch b a)) t t').
Proof. exact @compile_refines_rowsem_sheet. Qed.
Print Assumptions C02_compile_refines_rowsem_sheet_partial.

(* ON A TREE WITH THE FOUR REPAIRS (tree_repaired: the four probed constants true - a05766f, f02a865, 7eafa08 and the
   repair of category-name-clash) premises (2) and (3) are theorems: FOR EVERY SHEET of the core vocabulary, compile = Ok f
   and rowsem = Some ref imply trace equivalence - provided only that no `_nodeId` is the hard-exit marker and no bucket of
   a split_random is explicitly called "Bucket <n>" (sheet_ok: RandomRouter.add_choice invents such names and looks a name
   up among all buckets; the same quirk as category-name-clash, not repaired).  Those two provisos are why the name still
   ends in _partial. *)
Theorem C02_compile_refines_rowsem_repaired_partial : forall fresh validate name (rows : list srow) f ref,
  tree_repaired = true ->
  (forall a b : nat, fresh a = fresh b -> a = b) -> (forall k, fresh k <> hard_exit_sentinel) ->
  (forall us, validate us = None -> NoDup us) ->
  sheet_ok rows ->
  compile_with fresh validate name (map crow_of rows) = Ok f -> rowsem nab (map row_of rows) = Some ref ->
  (forall t, traces ref t -> exists t', traces f t' /\ Forall2 (ematch sexp smatch) t t')
  /\ (forall t, traces f t -> exists t', traces ref t' /\ Forall2 (ematch sexp (fun a b => smatch b a)) t t').
Proof. exact compile_refines_rowsem_repaired. Qed.
Print Assumptions C02_compile_refines_rowsem_repaired_partial.

Example C02_sheet_rows_nonvacuous :
  sheet_ok ex_srows
  /\ exists f ref, compile std_fresh [102%N] (map crow_of ex_srows) = Ok f /\ rowsem nab (map row_of ex_srows) = Some ref
                   /\ length (f_nodes f) = 4 /\ length (f_nodes ref) = 4.
Proof. exact sheet_rows_nonvacuous. Qed.
Print Assumptions C02_sheet_rows_nonvacuous.

(* the boolean test the harness evaluates on every generated sheet is sound for the hypotheses above *)
Theorem C02_fragb_sound : forall rows,
  fragb rows = true -> Forall (@row_ok (sheet_names rows)) rows /\ Forall reads_same rows.
Proof. exact fragb_sound. Qed.
Print Assumptions C02_fragb_sound.

(* the executable supply, the validation of the code of this run *)
Theorem C02_compile_refines_rowsem_std : forall name rows f ref,
  compile_checks_node_uuids = true -> fragb rows = true ->
  compile std_fresh name rows = Ok f -> rowsem nab (map cr_row rows) = Some ref ->
  (forall t, traces ref t -> exists t', traces f t' /\ Forall2 (ematch sexp smatch) t t')
  /\ (forall t, traces f t -> exists t', traces ref t' /\ Forall2 (ematch sexp (fun a b => smatch b a)) t t').
Proof. exact compile_refines_rowsem_std. Qed.
Print Assumptions C02_compile_refines_rowsem_std.

(* non-vacuity: directed sheets of the harness lie in the fragment, compile (compiled nodes) and have a reference
   meaning (reference nodes): a wait_for_response row with a timeout and two tests sharing a named category, value / group / random splits
   (named, unnamed and re-targeted buckets), rows merged through a given node id and through a node name, given node ids, a sheet
   whose first row opens a block, an action
   row with conditional edges (implicit router: 6 vs 5 nodes), a go_to cycle,
   no_op forwarding and a no_op decision, nested blocks with a hard exit, enter-flow / webhook / airtime outcomes,
   hard and loose exits *)
Example C02_refines_named_nonvacuous : refines_ex ex_router 6 6.
Proof. exact refines_ex_router. Qed.
Print Assumptions C02_refines_named_nonvacuous.
Example C02_refines_splits_nonvacuous : refines_ex ex_splits 9 9.
Proof. exact refines_ex_splits. Qed.
Print Assumptions C02_refines_splits_nonvacuous.
Example C02_refines_merged_nonvacuous : refines_ex ex_merged 3 3.
Proof. exact refines_ex_merged. Qed.
Print Assumptions C02_refines_merged_nonvacuous.
Example C02_refines_given_nonvacuous : refines_ex ex_given 3 3.
Proof. exact refines_ex_given. Qed.
Print Assumptions C02_refines_given_nonvacuous.
Example C02_refines_start_block_nonvacuous : refines_ex ex_start_block 3 3.
Proof. exact refines_ex_start_block. Qed.
Print Assumptions C02_refines_start_block_nonvacuous.
Example C02_refines_implicit_nonvacuous : refines_ex ex_implicit 6 5.
Proof. exact refines_ex_implicit. Qed.
Print Assumptions C02_refines_implicit_nonvacuous.
Example C02_refines_goto_cycle_nonvacuous : refines_ex ex_goto_cycle 3 3.
Proof. exact refines_ex_goto_cycle. Qed.
Print Assumptions C02_refines_goto_cycle_nonvacuous.
Example C02_refines_noop_nonvacuous : refines_ex ex_noop 9 9.
Proof. exact refines_ex_noop. Qed.
Print Assumptions C02_refines_noop_nonvacuous.
Example C02_refines_blocks_nonvacuous : refines_ex ex_blocks 8 8.
Proof. exact refines_ex_blocks. Qed.
Print Assumptions C02_refines_blocks_nonvacuous.
Example C02_refines_outcome_nonvacuous : refines_ex ex_outcome 9 9.
Proof. exact refines_ex_outcome. Qed.
Print Assumptions C02_refines_outcome_nonvacuous.
Example C02_refines_exits_nonvacuous : refines_ex ex_exits 3 3.
Proof. exact refines_ex_exits. Qed.
Print Assumptions C02_refines_exits_nonvacuous.

(* ------------------------------------------------------------------------------------------------------------
   The names the tool INVENTS against the names that are taken (strengthening after wave 4; Comp/CompileNames.v).
   The statements hold for EVERY state of the router: whatever edges were applied before and in whatever order,
   whatever the sheet called its own categories ("Other", "No Response", "Yes_alt", ...). *)

(* generate_category_name always returns a name, and the name of no category of the router (ordinary categories,
   default category, No Response category: `names` is the list add_choice passes, get_categories()) *)
Theorem C02_generated_name_is_not_taken : forall names args,
  exists nm, gen_cat_name names args = Ok nm /\ Flow.Closed.memb nm names = false.
Proof. exact gen_cat_name_fresh. Qed.
Print Assumptions C02_generated_name_is_not_taken.

(* a test the sheet leaves unnamed, when it is not a re-targeting of a test the router has, gets a category of its
   own: one category (uuid = the next draw, exit = where the edge leads, a name no category of the router had) and one
   case pointing to it are appended; the other categories, the default category and the wait with its No Response
   category are what they were - in particular the test does not take over the default branch (seed C02-w4) *)
Theorem C02_unnamed_test_gets_own_category : forall (fresh : nat -> id) n (r : cswitch) variable ty args d r' n',
  find (fun k => str_eqb (ck_type k) ty && ostr_list_eqb (ck_args k) args) (sw_cases r) = None ->
  sw_add_choice fresh n r variable ty args [] d false = Ok (r', n') ->
  exists c k,
    sw_cats r' = sw_cats r ++ [c] /\ sw_cases r' = sw_cases r ++ [k] /\
    sw_default r' = sw_default r /\ sw_wait r' = sw_wait r /\
    cc_uuid c = fresh n /\ ck_cat k = cc_uuid c /\ cat_dest c = d /\
    Flow.Closed.memb (cc_name c) (map cc_name (sw_all_cats r)) = false.
Proof. exact add_choice_unnamed_own_category. Qed.
Print Assumptions C02_unnamed_test_gets_own_category.

Example C02_unnamed_test_nonvacuous :
  match sw_add_choice wfresh 6 ex_switch_other [] s_has_any_word [Some [111;116;104;101;114]%N] [] (Some [67%N]) false with
  | Ok (r', _) => map cc_name (sw_all_cats r') = [s_Other ++ s_alt; s_Other ++ s_alt ++ s_alt; s_Other; s_NoResponse]
                  /\ map cat_dest (sw_all_cats r') = [Some [65%N]; Some [67%N]; Some [66%N]; None]
  | Err _ => False
  end.
Proof. exact add_choice_unnamed_nonvacuous. Qed.
Print Assumptions C02_unnamed_test_nonvacuous.

(* RandomRouter.add_choice: a bucket the sheet leaves unnamed is a NEW bucket when no bucket is called
   "Bucket <number of buckets + 2>" ... *)
Theorem C02_unnamed_bucket_gets_own_category_partial : forall (fresh : nat -> id) n (r : crandom) d r' n',
  existsb (name_is (bucket_auto_name r)) (rr_cats r) = false ->
  rr_add_choice fresh n r [] d = Ok (r', n') ->
  exists c, rr_cats r' = rr_cats r ++ [c] /\ cc_uuid c = fresh n /\ cat_dest c = d /\ cc_name c = bucket_auto_name r.
Proof. exact rr_unnamed_bucket_own_category. Qed.
Print Assumptions C02_unnamed_bucket_gets_own_category_partial.

(* ... and the statement without that premise is false of the faithful model (split_random; "Bucket 3" -> A;
   (blank) -> B: one bucket, leading to B) - replayed on the implementation: finding bucket-name-clash *)
Theorem C02_unnamed_bucket_gets_own_category_refuted :
  ~ (forall fresh n (r : crandom) d r' n',
        rr_add_choice fresh n r [] d = Ok (r', n') -> exists c, rr_cats r' = rr_cats r ++ [c] /\ cat_dest c = d).
Proof. exact rr_unnamed_bucket_refuted. Qed.
Print Assumptions C02_unnamed_bucket_gets_own_category_refuted.
