(* C02 — the compiled flow has exactly the control flow the sheet rows describe.
   The quantifier "for every sequence of contact replies, field and group values, random
   draws and sub-flow/webhook/airtime outcomes" is discharged by theorem: for every pair of
   flows the checker accepts, every finite trace of one is matched by the other.  The
   quantifier over SHEETS is discharged per generated sheet by running the checker between
   RowSem(sheet) and the implementation's output (translation validation). *)
From Coq Require Import List NArith Bool.
From RPFT Require Import Base.Sexp Base.SexpEq Flow.Lts Flow.Flow Flow.FlowFacts Flow.RowSem.
Import ListNotations.

(* the checker is sound for any label-matching relation (used with wildcard matching on
   category names the sheet does not fix) *)
Theorem C02_sim_check_sound : forall lm f g,
  sim_check lm f g = true ->
  forall t, traces f t -> exists t', traces g t' /\ Forall2 (ematch sexp lm) t t'.
Proof. exact sim_check_sound. Qed.
Print Assumptions C02_sim_check_sound.

(* with label equality: the two flows have exactly the same traces *)
Theorem C02_bisim_check_sound : forall f g,
  bisim_check f g = true -> forall t, traces f t <-> traces g t.
Proof. exact bisim_check_sound. Qed.
Print Assumptions C02_bisim_check_sound.

(* the checker is not vacuous: it accepts a pair of different flows with equal behaviour
   and rejects a pair that differs *)
Theorem C02_checker_nonvacuous :
  bisim_check ex_flow1 ex_flow2 = true /\ bisim_check ex_flow1 ex_flow3 = false.
Proof. exact bisim_nonvacuous. Qed.
Print Assumptions C02_checker_nonvacuous.
