(* C14 — workbook format does not matter (CSV folder / XLSX / JSON from `convert`).
   Only property theorems here, each closed by [exact] and followed by Print Assumptions.
   Models: Io/Csv.v (Python's csv module, excel dialect, as Modules/_csv.c; io newline
   translation; tablib import/export), Io/Sanitize.v (XLSXSheetReader._sanitize, Dataset.dict
   getter/setter, the three workbook readers).  Facts: Io/IoFacts.v, Io/SanitizeFacts.v,
   Io/JsonTableFacts.v, Io/AgreeFacts.v, Io/ShapeFacts.v (part 6).  openpyxl and json are not modelled: they are the
   universally quantified functions with one premise each in part 4.
   How a tree treats rows without content and sheets without rows is PROBED (Io/TreeFlags.v:
   tree_flags, from Gen/Tables.v); the facts are proved for arbitrary flags [fl] and the statements
   over the property's whole domain are DECIDED by the flags (part 5). *)
From Coq Require Import List NArith Bool.
From RPFT Require Import Base.Sexp Base.PyStr Base.Result Gen.Tables Io.Csv Io.Sanitize Io.TreeFlags
  Io.IoFacts Io.SanitizeFacts Io.JsonTableFacts Io.AgreeFacts Io.ShapeFacts.
Import ListNotations.
Local Open Scope N_scope.

(* ------------------------------------------------------------------ 0. the dialect *)

(* the regenerated csv dialect (tablib's, in the running interpreter) is the one Csv.v models:
   distinct non-newline delimiter and quotechar, CR LF terminator, doublequote, QUOTE_MINIMAL,
   no escapechar, no skipinitialspace, not strict *)
Theorem C14_csv_dialect_is_the_modelled_one : csv_dialect_ok = true.
Proof. exact csv_tables_ok. Qed.
Print Assumptions C14_csv_dialect_is_the_modelled_one.

(* ------------------------------------------------------------------ 1. the csv codec *)

(* every list of rows of arbitrary strings (any code points: delimiter, quote, CR, LF,
   non-ASCII; empty rows, lone empty fields, ragged rows) survives csv.writer -> csv.reader.
   The only guard is the reader's field size limit. *)
Theorem C14_csv_roundtrip : forall rows : list (list str),
  Forall (Forall (fun s => N.of_nat (length s) <= csv_field_limit)) rows ->
  csv_read csv_delimiter csv_quotechar csv_field_limit
    (csv_write csv_delimiter csv_quotechar csv_lineterminator rows) = Ok rows.
Proof. exact csv_roundtrip. Qed.
Print Assumptions C14_csv_roundtrip.

Example C14_csv_roundtrip_nonvacuous :
  Forall (Forall fits) ex_rows /\
  csv_wr ex_rows = [97; 44; 34; 44; 34; 34; 13; 10; 34; 44; 44; 233; 19990; 128512; 13; 10;
                    34; 34; 13; 10;
                    13; 10;
                    34; 13; 34; 44; 34; 10; 34; 44; 34; 34; 34; 34; 34; 34; 44; 34; 97; 13; 98; 34; 13; 10;
                    44; 13; 10] /\
  csv_rd (csv_wr ex_rows) = Ok ex_rows.
Proof. exact csv_roundtrip_nonvacuous. Qed.
Print Assumptions C14_csv_roundtrip_nonvacuous.

(* without the guard the statement is false: a field of field_size_limit+1 characters is
   written and then refused (_csv.Error: field larger than field limit) *)
Theorem C14_csv_roundtrip_unguarded_refuted :
  ~ (forall rows, csv_rd (csv_wr rows) = Ok rows) /\ csv_rd (csv_wr [[big_field]]) = Err EFieldLimit.
Proof. exact csv_roundtrip_unguarded_refuted. Qed.
Print Assumptions C14_csv_roundtrip_unguarded_refuted.

(* the guard is exact: the round trip holds IF AND ONLY IF every field fits, and otherwise the
   reader's answer is the field-limit error, whatever else the rows contain *)
Theorem C14_csv_roundtrip_guard_exact : forall rows : list (list str),
  (csv_rd (csv_wr rows) = Ok rows <-> Forall (Forall fits) rows) /\
  (~ Forall (Forall fits) rows -> csv_rd (csv_wr rows) = Err EFieldLimit).
Proof. exact (fun rows => conj (csv_roundtrip_iff rows) (csv_limit_exceeded rows)). Qed.
Print Assumptions C14_csv_roundtrip_guard_exact.

(* the file as sheets.load_csv reads it (text stream with newline=None): every cell comes back
   newline-normalised (CR LF and CR -> LF) and otherwise intact *)
Theorem C14_csv_text_roundtrip : forall rows : list (list str),
  Forall (Forall (fun s => N.of_nat (length s) <= csv_field_limit)) rows ->
  csv_read csv_delimiter csv_quotechar csv_field_limit
    (translate (csv_write csv_delimiter csv_quotechar csv_lineterminator rows)) = Ok (map (map translate) rows).
Proof. exact csv_text_roundtrip. Qed.
Print Assumptions C14_csv_text_roundtrip.

Example C14_csv_text_roundtrip_nonvacuous :
  Forall (Forall fits) ex_rows /\ map (map translate) ex_rows <> ex_rows /\
  csv_rd (translate (csv_wr ex_rows)) = Ok (map (map translate) ex_rows).
Proof. exact csv_text_roundtrip_nonvacuous. Qed.
Print Assumptions C14_csv_text_roundtrip_nonvacuous.

(* tablib export + sheets.load_csv on one sheet, in either newline mode of load_csv *)
Theorem C14_csv_sheet : forall translated (t : table str str),
  hdr t <> [] -> rect t -> cells_fit t ->
  load_csv translated (export_csv t) = Ok (if translated then tr_table t else t).
Proof. exact csv_sheet. Qed.
Print Assumptions C14_csv_sheet.

(* ... and CSVSheetReader on it: the same table, without its rows of empty cells on a tree whose
   reader omits them *)
Theorem C14_csv_reader_sheet : forall fl translated (t : table str str),
  hdr t <> [] -> rect t -> cells_fit t ->
  read_csv fl translated (export_csv t) = Ok (drop_if (rf_csv_drop fl) (if translated then tr_table t else t)).
Proof. exact csv_reader_sheet. Qed.
Print Assumptions C14_csv_reader_sheet.

(* ------------------------------------------------------------------ 2. _sanitize *)

(* strip_none is THE split of a header row into (a part that is empty or ends with a real
   header) ++ (None cells) *)
Theorem C14_strip_none_characterised : forall h : list xcell,
  (exists k, h = strip_none h ++ repeat None k /\ ends_some (strip_none h)) /\
  (forall l k, h = l ++ repeat None k -> ends_some l -> strip_none h = l).
Proof. exact (fun h => conj (strip_none_decomp h) (strip_none_unique h)). Qed.
Print Assumptions C14_strip_none_characterised.

(* the loop as coded (pop trailing None headers; per row: truncate to the header width,
   None -> '', keep iff some cell is non-empty, append with tablib's dimension check) equals the
   declarative description, on every table — errors included *)
Theorem C14_sanitize_spec : forall sheet : table xcell xcell,
  sanitize sheet =
  match hdr sheet with
  | [] => Err EType
  | _ =>
    match strip_none (hdr sheet) with
    | [] => Err EIndex
    | h' =>
      let w := length h' in
      let kept := filter (existsb nonempty) (map (fun r => firstn w (map cell_text r)) (rws sheet)) in
      if forallb (fun r => Nat.eqb (length r) w) kept then Ok (mkT h' kept) else Err EInvalidDimensions
    end
  end.
Proof. exact sanitize_spec. Qed.
Print Assumptions C14_sanitize_spec.

(* on what tablib's XLSX import hands over (rows as wide as the header row) it cannot fail
   once one header is not None *)
Theorem C14_sanitize_imported : forall sheet : table xcell xcell,
  rect sheet -> strip_none (hdr sheet) <> [] ->
  sanitize sheet = Ok (mkT (strip_none (hdr sheet))
                           (filter keep_row (map (sanitize_row (length (strip_none (hdr sheet)))) (rws sheet)))).
Proof. exact sanitize_imported. Qed.
Print Assumptions C14_sanitize_imported.

Theorem C14_sanitize_idempotent : forall sheet t,
  sanitize sheet = Ok t -> sanitize (mkT (hdr t) (map (map Some) (rws t))) = Ok t.
Proof. exact sanitize_idempotent. Qed.
Print Assumptions C14_sanitize_idempotent.

Example C14_sanitize_nonvacuous :
  rect ex_sheet /\ strip_none (hdr ex_sheet) = [Some [97]; None; Some [98]] /\
  sanitize ex_sheet = Ok ex_sanitized /\ sanitize (relift ex_sanitized) = Ok ex_sanitized.
Proof. exact sanitize_nonvacuous. Qed.
Print Assumptions C14_sanitize_nonvacuous.

(* ------------------------------------------------------------------ 3. table <-> list of dicts *)

Theorem C14_json_table_roundtrip : forall t : table str str,
  NoDup (hdr t) -> rect t -> rws t <> [] -> from_dicts (to_dicts t) = Ok t.
Proof. exact json_table_roundtrip. Qed.
Print Assumptions C14_json_table_roundtrip.

Example C14_json_table_roundtrip_nonvacuous :
  NoDup (hdr ex_table) /\ rect ex_table /\ rws ex_table <> [] /\
  to_dicts ex_table = JDicts [ [([97], [120]); ([98; 32; 99], []); ([233], [44; 34; 10])];
                               [([97], []); ([98; 32; 99], []); ([233], [])];
                               [([97], [49]); ([98; 32; 99], [50]); ([233], [19990])] ].
Proof. exact json_table_roundtrip_nonvacuous. Qed.
Print Assumptions C14_json_table_roundtrip_nonvacuous.

(* rows = []: Dataset.dict cannot carry the headers (the cause of finding "sheet without rows": on the
   repaired tree `convert` no longer relies on Dataset.dict for such a sheet, see part 5) *)
Theorem C14_json_table_roundtrip_header_only_refuted :
  let t := mkT [[97]] [] in
  NoDup (hdr t) /\ rect t /\ from_dicts (to_dicts t) = Ok empty_table /\ from_dicts (to_dicts t) <> Ok t.
Proof. exact json_table_roundtrip_header_only_refuted. Qed.
Print Assumptions C14_json_table_roundtrip_header_only_refuted.

(* NoDup is needed too (outside the property's domain: it asks for unique headers) *)
Theorem C14_json_table_roundtrip_duplicate_header_refuted :
  let t := mkT [[97]; [97]] [[[120]; [121]]] in
  rect t /\ rws t <> [] /\ from_dicts (to_dicts t) = Ok (mkT [[97]] [[[121]]]) /\ from_dicts (to_dicts t) <> Ok t.
Proof. exact json_table_roundtrip_duplicate_header_refuted. Qed.
Print Assumptions C14_json_table_roundtrip_duplicate_header_refuted.

(* ------------------------------------------------------------------ 4. the three readers agree *)

(* one XLSX sheet, also when openpyxl reports k extra None-filled columns to the right *)
Theorem C14_xlsx_sheet : forall (t : table str str) k,
  hdr t <> [] -> Forall (fun s => s <> []) (hdr t) -> rect t -> no_empty_row t ->
  read_xlsx_sheet (xl_grid t) = Ok (lift_table (tr_table t)) /\
  read_xlsx_sheet (widen k (xl_grid t)) = Ok (lift_table (tr_table t)).
Proof. exact (fun t k H1 H2 H3 H4 => conj (xlsx_sheet t H1 H2 H3 H4) (xlsx_sheet_stray t k H1 H2 H3 H4)). Qed.
Print Assumptions C14_xlsx_sheet.

(* without the "no row of empty cells" premise: `_sanitize` omits exactly those rows *)
Theorem C14_xlsx_sheet_any_rows : forall (t : table str str) k,
  hdr t <> [] -> Forall (fun s => s <> []) (hdr t) -> rect t ->
  read_xlsx_sheet (xl_grid t) = Ok (lift_table (drop_empty_rows (tr_table t))) /\
  read_xlsx_sheet (widen k (xl_grid t)) = Ok (lift_table (drop_empty_rows (tr_table t))).
Proof. exact (fun t k H1 H2 H3 => conj (xlsx_sheet_gen t H1 H2 H3) (xlsx_sheet_stray_gen t k H1 H2 H3)). Qed.
Print Assumptions C14_xlsx_sheet_any_rows.

(* Premises (the two libraries that are not modelled): openpyxl hands back, for a workbook saved
   as string cells, the grid [xl_grid] (None for '', CR LF / CR -> LF); json.loads undoes
   json.dumps.  Domain: the property's (rectangular sheets, non-empty pairwise distinct headers,
   cells within the csv field limit) minus the two classes of part 5 (rows of empty cells, sheets
   without rows), cells without CR.
   Then the CSV folder, the XLSX file and the JSON produced by `convert` read into the workbook
   itself — names, headers and every cell string intact — on EVERY tree (any reader flags). *)
Theorem C14_formats_agree :
  forall (X J : Type) (xl_write : workbook (table str str) -> X) (xl_load : X -> workbook (list (list xcell)))
         (json_dumps : workbook jsheet -> J) (json_loads : J -> workbook jsheet),
  (forall wb, xl_load (xl_write wb) = wb_map xl_grid wb) ->
  (forall b, json_loads (json_dumps b) = b) ->
  forall (fl : reader_flags) (translated : bool) (wb : workbook (table str str)),
  Forall (fun p => let t := snd p in
            hdr t <> [] /\ Forall (fun s => s <> []) (hdr t) /\ NoDup (hdr t) /\ rect t /\ cells_fit t /\
            no_empty_row t /\ rws t <> []) wb ->
  Forall (fun p => cr_free (snd p)) wb ->
  via_csv fl translated wb = Ok wb /\
  via_xlsx X xl_write xl_load wb = Ok (wb_map lift_table wb) /\
  via_json J json_dumps json_loads fl translated wb = Ok wb.
Proof. exact formats_agree. Qed.
Print Assumptions C14_formats_agree.

Example C14_formats_agree_nonvacuous :
  let xl_write := wb_map xl_grid in
  let xl_load := fun x : workbook (list (list xcell)) => x in
  let dumps := fun b : workbook jsheet => b in
  let loads := fun b : workbook jsheet => b in
  (forall wb, xl_load (xl_write wb) = wb_map xl_grid wb) /\ (forall b, loads (dumps b) = b) /\
  wb_ok ex_wb /\ wb_cr_free ex_wb /\
  via_csv tree_flags load_csv_translated ex_wb = Ok ex_wb /\
  via_xlsx _ xl_write xl_load ex_wb = Ok (wb_map lift_table ex_wb) /\
  via_json _ dumps loads tree_flags load_csv_translated ex_wb = Ok ex_wb.
Proof. exact formats_agree_nonvacuous. Qed.
Print Assumptions C14_formats_agree_nonvacuous.

(* with CR LF / CR inside cells the three readers still agree with each other, on the
   newline-normalised workbook (load_csv opens its file with newline=None: regenerated table) *)
Theorem C14_formats_agree_normalised :
  forall (X J : Type) (xl_write : workbook (table str str) -> X) (xl_load : X -> workbook (list (list xcell)))
         (json_dumps : workbook jsheet -> J) (json_loads : J -> workbook jsheet),
  (forall wb, xl_load (xl_write wb) = wb_map xl_grid wb) ->
  (forall b, json_loads (json_dumps b) = b) ->
  forall (fl : reader_flags) (wb : workbook (table str str)),
  Forall (fun p => let t := snd p in
            hdr t <> [] /\ Forall (fun s => s <> []) (hdr t) /\ NoDup (map translate (hdr t)) /\ rect t /\
            cells_fit t /\ no_empty_row t /\ rws t <> []) wb ->
  via_csv fl load_csv_translated wb = Ok (wb_map tr_table wb) /\
  via_xlsx X xl_write xl_load wb = Ok (wb_map lift_table (wb_map tr_table wb)) /\
  via_json J json_dumps json_loads fl load_csv_translated wb = Ok (wb_map tr_table wb).
Proof. exact formats_agree_normalised_tables. Qed.
Print Assumptions C14_formats_agree_normalised.

Example C14_formats_agree_normalised_nonvacuous :
  load_csv_translated = true /\
  Forall (fun p => sheet_ok_tr (snd p)) ex_wb_cr /\ wb_map tr_table ex_wb_cr <> ex_wb_cr /\
  via_csv tree_flags load_csv_translated ex_wb_cr = Ok (wb_map tr_table ex_wb_cr).
Proof. exact formats_agree_normalised_nonvacuous. Qed.
Print Assumptions C14_formats_agree_normalised_nonvacuous.

(* ------------------------------------------------------------------ 5. the property's whole domain *)

(* The statement over the property's whole domain — rectangular text sheets with unique non-empty
   headers, ANY number of rows, empty cells allowed (hence rows of empty cells, sheets without rows);
   the JSON produced by `convert` from the CSV folder, or held in `convert`'s format — is DECIDED by
   the probed flags of the tree: it holds on a tree with both repairs (every reader omits rows without
   content; `convert` writes and JSONSheetReader reads the object form for a sheet without rows) and is
   refuted on every other tree (findings "all-empty row", "sheet without rows"). *)
Theorem C14_formats_agree_full_decided :
  forall (X J : Type) (xl_write : workbook (table str str) -> X) (xl_load : X -> workbook (list (list xcell)))
         (json_dumps : workbook jsheet -> J) (json_loads : J -> workbook jsheet),
  (forall wb, xl_load (xl_write wb) = wb_map xl_grid wb) ->
  (forall b, json_loads (json_dumps b) = b) ->
  forall translated : bool,
  let full := forall wb : workbook (table str str),
       Forall (fun p => let t := snd p in
                 hdr t <> [] /\ Forall (fun s => s <> []) (hdr t) /\ NoDup (hdr t) /\ rect t /\ cells_fit t /\
                 cr_free t) wb ->
       rmap (wb_map lift_table) (via_csv tree_flags translated wb) = via_xlsx X xl_write xl_load wb /\
       via_json J json_dumps json_loads tree_flags translated wb = via_csv tree_flags translated wb /\
       via_json_direct J json_dumps json_loads tree_flags wb = via_csv tree_flags translated wb in
  if flags_repaired tree_flags then full else ~ full.
Proof. exact formats_agree_full_tree. Qed.
Print Assumptions C14_formats_agree_full_decided.

(* the same for ANY flags (the proof never looks at the probed values), with what the reads are when
   both repairs are in: the workbook without its rows of empty cells, everything else intact *)
Theorem C14_formats_agree_full_repaired :
  forall (X J : Type) (xl_write : workbook (table str str) -> X) (xl_load : X -> workbook (list (list xcell)))
         (json_dumps : workbook jsheet -> J) (json_loads : J -> workbook jsheet),
  (forall wb, xl_load (xl_write wb) = wb_map xl_grid wb) ->
  (forall b, json_loads (json_dumps b) = b) ->
  forall (fl : reader_flags) (translated : bool) (wb : workbook (table str str)),
  flags_repaired fl = true ->
  Forall (fun p => let t := snd p in
            hdr t <> [] /\ Forall (fun s => s <> []) (hdr t) /\ NoDup (hdr t) /\ rect t /\ cells_fit t /\
            cr_free t) wb ->
  via_csv fl translated wb = Ok (wb_map drop_empty_rows wb) /\
  via_xlsx X xl_write xl_load wb = Ok (wb_map lift_table (wb_map drop_empty_rows wb)) /\
  via_json J json_dumps json_loads fl translated wb = Ok (wb_map drop_empty_rows wb) /\
  via_json_direct J json_dumps json_loads fl wb = Ok (wb_map drop_empty_rows wb).
Proof. exact formats_agree_full_repaired. Qed.
Print Assumptions C14_formats_agree_full_repaired.

Example C14_formats_agree_full_nonvacuous :
  let xl_write := wb_map xl_grid in
  let xl_load := fun x : workbook (list (list xcell)) => x in
  let dumps := fun b : workbook jsheet => b in
  let loads := fun b : workbook jsheet => b in
  flags_repaired (flags_all true) = true /\ flags_repaired (flags_all false) = false /\
  Forall (fun p => in_property_domain (snd p)) ex_wb_full /\
  wb_map drop_empty_rows ex_wb_full =
    [ ([115; 49], mkT [[97]; [98; 32; 99]] [[[120; 44; 121]; []]; [[]; [34; 10; 19990]]]);
      ([101], mkT [[105; 100]] []); ([104], mkT [[105; 100]; [118]] []) ] /\
  via_csv (flags_all true) load_csv_translated ex_wb_full = Ok (wb_map drop_empty_rows ex_wb_full) /\
  via_xlsx _ xl_write xl_load ex_wb_full = Ok (wb_map lift_table (wb_map drop_empty_rows ex_wb_full)) /\
  via_json _ dumps loads (flags_all true) load_csv_translated ex_wb_full = Ok (wb_map drop_empty_rows ex_wb_full) /\
  via_json_direct _ dumps loads (flags_all true) ex_wb_full = Ok (wb_map drop_empty_rows ex_wb_full).
Proof. exact formats_agree_full_nonvacuous. Qed.
Print Assumptions C14_formats_agree_full_nonvacuous.

(* finding "all-empty row" alone: sheets that keep at least one row with content.  The readers agree (on
   the workbook without the rows of empty cells) exactly when the CSV and the JSON reader omit those
   rows as `_sanitize` always did *)
Theorem C14_empty_rows_agree_decided :
  forall (X J : Type) (xl_write : workbook (table str str) -> X) (xl_load : X -> workbook (list (list xcell)))
         (json_dumps : workbook jsheet -> J) (json_loads : J -> workbook jsheet),
  (forall wb, xl_load (xl_write wb) = wb_map xl_grid wb) ->
  (forall b, json_loads (json_dumps b) = b) ->
  forall translated : bool,
  let agree := forall wb : workbook (table str str),
       Forall (fun p => in_property_domain (snd p) /\ has_content_row (snd p)) wb ->
       via_csv tree_flags translated wb = Ok (wb_map drop_empty_rows wb) /\
       via_xlsx X xl_write xl_load wb = Ok (wb_map lift_table (wb_map drop_empty_rows wb)) /\
       via_json J json_dumps json_loads tree_flags translated wb = Ok (wb_map drop_empty_rows wb) /\
       via_json_direct J json_dumps json_loads tree_flags wb = Ok (wb_map drop_empty_rows wb) in
  if csv_reader_drops_empty_rows && json_reader_drops_empty_rows then agree else ~ agree.
Proof. exact (fun X J xw xl jd jl Hx Hj tr => empty_rows_agree_decided X J xw xl jd jl Hx Hj tree_flags tr). Qed.
Print Assumptions C14_empty_rows_agree_decided.

(* the witness: sheet "s", header "a", rows "x" and "" — what each format reads, on every tree *)
Theorem C14_empty_row_witness :
  forall (X J : Type) (xl_write : workbook (table str str) -> X) (xl_load : X -> workbook (list (list xcell)))
         (json_dumps : workbook jsheet -> J) (json_loads : J -> workbook jsheet),
  (forall wb, xl_load (xl_write wb) = wb_map xl_grid wb) ->
  (forall b, json_loads (json_dumps b) = b) ->
  forall (fl : reader_flags) (translated : bool),
  let wb := [([115], mkT [[97]] [[[120]]; [[]]])] in
  via_csv fl translated wb = Ok (wb_map (drop_if (rf_csv_drop fl)) wb) /\
  via_xlsx X xl_write xl_load wb = Ok [([115], mkT [Some [97]] [[[120]]])] /\
  via_json_direct J json_dumps json_loads fl wb = Ok (wb_map (drop_if (rf_json_drop fl)) wb).
Proof. exact empty_row_witness. Qed.
Print Assumptions C14_empty_row_witness.

(* finding "sheet without rows" alone: EVERY table with pairwise distinct headers, with or without rows,
   comes back from `convert` + JSONSheetReader exactly when the object form is written and read *)
Theorem C14_convert_roundtrip_decided :
  let all := forall t : table str str, NoDup (hdr t) -> rect t ->
       read_json_sheet tree_flags (to_json_sheet tree_flags t) = Ok (drop_if json_reader_drops_empty_rows t) in
  if to_json_table_form && json_reader_table_form then all else ~ all.
Proof. exact (json_roundtrip_all_decided tree_flags). Qed.
Print Assumptions C14_convert_roundtrip_decided.

(* the witness: sheet "s", header "a", no rows — through the CSV reader and through `convert` + JSONSheetReader *)
Theorem C14_convert_header_only_witness :
  forall (J : Type) (json_dumps : workbook jsheet -> J) (json_loads : J -> workbook jsheet),
  (forall b, json_loads (json_dumps b) = b) ->
  forall (fl : reader_flags) (translated : bool),
  let wb := [([115], mkT [[97]] [])] in
  via_csv fl translated wb = Ok wb /\
  via_json J json_dumps json_loads fl translated wb =
    (if rf_tojson_table fl then (if rf_json_table fl then Ok wb else Err EFormat) else Ok [([115], empty_table)]).
Proof. exact header_only_witness. Qed.
Print Assumptions C14_convert_header_only_witness.

(* ------------------------------------------------------------------ 6. the shape of a sheet *)

(* None of the statements above bounds the number of rows, columns or sheets.  Said explicitly for the one thing a
   reader could treat by SIZE — rows without content: two workbooks of the property's domain with the same sheet names,
   headers and rows WITH content (however many rows without content each has, and wherever they stand: a run of 1000
   between two blocks, content far below the header, a long tail) are read alike by every format, and what is read is
   the content.  (On a tree whose readers all omit such rows; for any flags [fl] with both repairs.) *)
Theorem C14_blank_rows_do_not_matter :
  forall (X J : Type) (xl_write : workbook (table str str) -> X) (xl_load : X -> workbook (list (list xcell)))
         (json_dumps : workbook jsheet -> J) (json_loads : J -> workbook jsheet),
  (forall wb, xl_load (xl_write wb) = wb_map xl_grid wb) ->
  (forall b, json_loads (json_dumps b) = b) ->
  forall (fl : reader_flags) (translated : bool) (wb wb' : workbook (table str str)),
  flags_repaired fl = true ->
  Forall (fun p => in_property_domain (snd p)) wb -> Forall (fun p => in_property_domain (snd p)) wb' ->
  Forall2 (fun p p' => fst p = fst p' /\ hdr (snd p) = hdr (snd p') /\
                       filter keep_row (rws (snd p)) = filter keep_row (rws (snd p'))) wb wb' ->
  via_csv fl translated wb = via_csv fl translated wb' /\
  via_xlsx X xl_write xl_load wb = via_xlsx X xl_write xl_load wb' /\
  via_json J json_dumps json_loads fl translated wb = via_json J json_dumps json_loads fl translated wb' /\
  via_json_direct J json_dumps json_loads fl wb = via_json_direct J json_dumps json_loads fl wb' /\
  via_csv fl translated wb' = Ok (wb_map drop_empty_rows wb) /\
  via_xlsx X xl_write xl_load wb' = Ok (wb_map lift_table (wb_map drop_empty_rows wb)).
Proof. exact blank_rows_do_not_matter. Qed.
Print Assumptions C14_blank_rows_do_not_matter.

(* in particular a run of n rows without content in front of row k of each sheet (g name = (k, n); ANY n: 1000 and 1
   alike) is not seen by any reader *)
Theorem C14_blank_run_any_length :
  forall (X J : Type) (xl_write : workbook (table str str) -> X) (xl_load : X -> workbook (list (list xcell)))
         (json_dumps : workbook jsheet -> J) (json_loads : J -> workbook jsheet),
  (forall wb, xl_load (xl_write wb) = wb_map xl_grid wb) ->
  (forall b, json_loads (json_dumps b) = b) ->
  forall (fl : reader_flags) (translated : bool) (g : str -> nat * nat) (wb : workbook (table str str)),
  flags_repaired fl = true -> Forall (fun p => in_property_domain (snd p)) wb ->
  let gapped := map (fun p => (fst p, mkT (hdr (snd p))
                       (firstn (fst (g (fst p))) (rws (snd p))
                        ++ repeat (repeat [] (length (hdr (snd p)))) (snd (g (fst p)))
                        ++ skipn (fst (g (fst p))) (rws (snd p))))) wb in
  via_csv fl translated gapped = via_csv fl translated wb /\
  via_xlsx X xl_write xl_load gapped = via_xlsx X xl_write xl_load wb /\
  via_json J json_dumps json_loads fl translated gapped = via_json J json_dumps json_loads fl translated wb /\
  via_json_direct J json_dumps json_loads fl gapped = via_json_direct J json_dumps json_loads fl wb.
Proof. exact blank_run_any_length. Qed.
Print Assumptions C14_blank_run_any_length.

(* sheet "s", headers a, b: a row with content, 1200 rows without, a row with content *)
Example C14_blank_run_nonvacuous :
  let xl_write := wb_map xl_grid in
  let xl_load := fun x : workbook (list (list xcell)) => x in
  let dumps := fun b : workbook jsheet => b in
  let loads := fun b : workbook jsheet => b in
  Forall (fun p => in_property_domain (snd p)) ex_gap_wb /\
  (exists t, ex_gap_wb = [([115], t)] /\ length (rws t) = 1202%nat /\ nth 1200%nat (rws t) [] = blank_row 2
             /\ nth 1201%nat (rws t) [] = [[]; [121; 44; 122]]) /\
  via_csv (flags_all true) load_csv_translated ex_gap_wb = Ok ex_gap_base /\
  via_xlsx _ xl_write xl_load ex_gap_wb = Ok (wb_map lift_table ex_gap_base) /\
  via_json _ dumps loads (flags_all true) load_csv_translated ex_gap_wb = Ok ex_gap_base /\
  via_json_direct _ dumps loads (flags_all true) ex_gap_wb = Ok ex_gap_base.
Proof. exact blank_run_nonvacuous. Qed.
Print Assumptions C14_blank_run_nonvacuous.
