(* C14 — placeholder while the facts file is being written *)
From Coq Require Import List NArith Bool.
From RPFT Require Import Base.Sexp Base.Result Gen.Tables Io.Csv Io.Sanitize.
Import ListNotations.
Local Open Scope N_scope.

Example C14_csv_witness :
  csv_read csv_delimiter csv_quotechar csv_field_limit
    (csv_write csv_delimiter csv_quotechar csv_lineterminator [[[97]; [44; 34; 13; 10]]; [[]]; []])
  = Ok [[[97]; [44; 34; 13; 10]]; [[]]; []].
Proof. vm_compute. reflexivity. Qed.
Print Assumptions C14_csv_witness.
