(* C17 — `--strip_uuids` sheets do not depend on the uuids in the flow file.
   Only property theorems here, each closed by [exact] and followed by Print Assumptions.
   The model (Exp/ToRows.v) is written over an abstract uuid type with a boolean equality. *)
From Coq Require Import String.
From Coq Require Import List NArith Bool.
From RPFT Require Import Base.Sexp Base.PyStr Base.Result Gen.Tables Exp.ToRows Exp.ToRowsFacts Exp.RowIdFacts.
Import ListNotations.

(* 1. for every injective renaming of the uuids (even into another uuid type), numbered or not,
   the stripped export of the renamed flow is the stripped export of the flow.  The result type
   mentions no uuid: [Ok (Some sheet)], [Ok None] (a uuid reached a cell) or [Err _]. *)
Theorem C17_export_equivariant :
  forall (U U' : Type) (ueqb : U -> U -> bool) (ueqb' : U' -> U' -> bool),
    (forall a b, ueqb a b = true <-> a = b) ->
    (forall a b, ueqb' a b = true <-> a = b) ->
    forall sg : U -> U', (forall a b, sg a = sg b -> a = b) ->
    forall (numbered : bool) (nodes : list (node U)),
      export_strip ueqb' numbered (map (rn_node U U' sg) nodes) = export_strip ueqb numbered nodes.
Proof. exact export_equivariant. Qed.
Print Assumptions C17_export_equivariant.

Example C17_export_equivariant_nonvacuous :
  exists sheet, export_strip N.eqb false demo_flow = Ok (Some sheet) /\ length sheet = 5%nat
                /\ flow_ok demo_flow = true.
Proof. exact demo_flow_exports. Qed.
Print Assumptions C17_export_equivariant_nonvacuous.

(* 2. the sheet contains no uuid.  The guard [flow_ok] is decided by the regenerated probe
   [has_group_case_by_name] (which argument of a has_group case SwitchRouter.get_exit_edge_pairs
   writes into a condition when the operand is not @contact.groups):
   - unrepaired tree (probe false): every case that carries a group uuid sits in a group split --
     a restriction of the inputs; the unrestricted statement is refuted below (finding
     has_group-case-outside-group-split);
   - repaired tree (probe true): every case that carries a group uuid is a has_group case -- the
     invariant [flow_wf] of the representation (only has_group cases have [k_group]; the harness
     checks it on every encoded flow), i.e. no restriction: the statement is unconditional. *)
Theorem C17_no_uuid_in_sheet :
  forall (U : Type) (ueqb : U -> U -> bool) (numbered : bool) (nodes : list (node U)),
    flow_ok nodes = true -> export_strip ueqb numbered nodes <> Ok None.
Proof. exact no_uuid_in_sheet. Qed.
Print Assumptions C17_no_uuid_in_sheet.

Theorem C17_no_uuid_in_sheet_repaired :
  forall (U : Type) (ueqb : U -> U -> bool) (numbered : bool) (nodes : list (node U)),
    has_group_case_by_name = true -> flow_wf nodes = true -> export_strip ueqb numbered nodes <> Ok None.
Proof. exact no_uuid_in_sheet_repaired. Qed.
Print Assumptions C17_no_uuid_in_sheet_repaired.

(* ... the unrestricted statement on the witness flow (a has_group case [group uuid 77, "my group"]
   under the operand @input.text): false of the faithful model of an unrepaired tree (finding
   has_group-case-outside-group-split, reproduced on the code), true of a repaired one *)
Theorem C17_no_uuid_in_sheet_witness :
  flow_wf leak_flow = true /\
  if has_group_case_by_name then export_strip N.eqb false leak_flow <> Ok None
  else export_strip N.eqb false leak_flow = Ok None.
Proof. exact no_uuid_in_sheet_witness. Qed.
Print Assumptions C17_no_uuid_in_sheet_witness.

Theorem C17_no_uuid_in_sheet_refuted :
  has_group_case_by_name = false ->
  exists nodes : list (node N), flow_wf nodes = true /\ export_strip N.eqb false nodes = Ok None.
Proof. exact no_uuid_in_sheet_refuted. Qed.
Print Assumptions C17_no_uuid_in_sheet_refuted.

(* 4. every uuid-typed field of the regenerated FlowRowModel field list is written under a
   header that the regenerated exclusion set of to_row_data_sheet(strip_uuids=True) matches.
   Partial: "uuid-typed" is the model's inventory (node_uuid, obj_id); wa_template.uuid is the
   WhatsApp template's own identifier, outside the renamed kinds, and stays. *)
Theorem C17_excluded_cover_partial : header_of_uuid_fields_excluded = true.
Proof. exact excluded_cover. Qed.
Print Assumptions C17_excluded_cover_partial.

(* 5. `--numbered`: the row ids are "1", "2", ..., "n" in row order -- every row, go_to rows
   included, flows of any size -- whenever the export succeeds.  No guard on the flow is needed:
   the statement holds of the faithful model for every flow (cycles, joins, several back edges
   from / into one node, equal short names, duplicate node uuids in the node list). *)
Theorem C17_numbered_ids_are_1_to_n :
  forall (U : Type) (ueqb : U -> U -> bool), (forall a b, ueqb a b = true <-> a = b) ->
  forall (nodes : list (node U)) (rows : list (row U str)),
    to_rows ueqb true nodes = Ok rows ->
    map r_id rows = map dec_of_nat (seq 1 (length rows)).
Proof. exact numbered_ids_are_1_to_n. Qed.
Print Assumptions C17_numbered_ids_are_1_to_n.

(* ... and the same read off the stripped sheet: the row_id column (kept by the regenerated
   exclusion set) is "1".."n" *)
Theorem C17_numbered_ids_are_1_to_n_sheet :
  forall (U : Type) (ueqb : U -> U -> bool), (forall a b, ueqb a b = true <-> a = b) ->
  forall (nodes : list (node U)) (sheet : list (list (str * upv))),
    export_strip ueqb true nodes = Ok (Some sheet) ->
    sheet_col (lit "row_id") sheet = map (fun i => Some (VS (dec_of_nat i))) (seq 1 (length sheet)).
Proof. exact sheet_numbered_ids. Qed.
Print Assumptions C17_numbered_ids_are_1_to_n_sheet.

(* decimal printing is what it should be: injective (so "1".."n" are n different names) *)
Theorem C17_decimal_injective : forall a b : nat, dec_of_nat a = dec_of_nat b -> a = b.
Proof. exact dec_of_nat_inj. Qed.
Print Assumptions C17_decimal_injective.

(* a flow with a cycle, a join, two back edges from one node into one node and a second back edge
   into another node, with two nodes of the same short name *)
Example C17_numbered_ids_nonvacuous :
  rmap (map row_skel) (to_rows N.eqb true loops_flow)
  = Ok [ (lit "1", lit "send_message", [lit "start"], []);
         (lit "2", lit "wait_for_response", [lit "1"], []);
         (lit "3", lit "go_to", [lit "2"], [lit "1"]);
         (lit "4", lit "go_to", [lit "2"], [lit "1"]);
         (lit "5", lit "send_message", [lit "2"; lit "2"], []);
         (lit "6", lit "go_to", [lit "5"], [lit "2"]) ].
Proof. exact loops_flow_numbered. Qed.
Print Assumptions C17_numbered_ids_nonvacuous.

(* 6. readable (and numbered) ids: pairwise distinct, none is "start", every edge origin is
   "start" or the id of a row of the sheet, every go_to target is the id of a row of the sheet.
   For every flow on which the export succeeds. *)
Theorem C17_readable_ids_unique :
  forall (U : Type) (ueqb : U -> U -> bool), (forall a b, ueqb a b = true <-> a = b) ->
  forall (numbered : bool) (nodes : list (node U)) (rows : list (row U str)),
    to_rows ueqb numbered nodes = Ok rows ->
    NoDup (map r_id rows) /\ ~ In start_id (map r_id rows) /\ refs_resolve U rows.
Proof. exact row_ids_unique. Qed.
Print Assumptions C17_readable_ids_unique.

Theorem C17_readable_ids_unique_sheet :
  forall (U : Type) (ueqb : U -> U -> bool), (forall a b, ueqb a b = true <-> a = b) ->
  forall (numbered : bool) (nodes : list (node U)) (sheet : list (list (str * upv))),
    export_strip ueqb numbered nodes = Ok (Some sheet) ->
    NoDup (sheet_col (lit "row_id") sheet) /\ ~ In (Some (VS start_id)) (sheet_col (lit "row_id") sheet)
    /\ ~ In None (sheet_col (lit "row_id") sheet).
Proof. exact sheet_ids_unique. Qed.
Print Assumptions C17_readable_ids_unique_sheet.

(* ... references resolve to the RIGHT row: the final rows are the temporary rows of the DFS
   relabelled by a function that is injective on the ids in use and keeps "start" *)
Theorem C17_remapping_is_faithful :
  forall (U : Type) (ueqb : U -> U -> bool), (forall a b, ueqb a b = true <-> a = b) ->
  forall (numbered : bool) (nodes : list (node U)) (rows : list (row U str)),
    to_rows ueqb numbered nodes = Ok rows ->
    exists (tmp : list (row U (tid U))) (f : tid U -> str),
      to_rows_tmp ueqb nodes = Ok tmp /\ rows = map (relabel U f) tmp /\ f TStart = start_id
      /\ NoDup (map r_id tmp)
      /\ (forall a b, In a (TStart :: map r_id tmp) -> In b (TStart :: map r_id tmp) -> f a = f b -> a = b).
Proof. exact to_rows_faithful. Qed.
Print Assumptions C17_remapping_is_faithful.

Example C17_readable_ids_nonvacuous :
  rmap (map row_skel) (to_rows N.eqb false loops_flow)
  = Ok [ (lit "msg.hello", lit "send_message", [lit "start"], []);
         (lit "switch.Result", lit "wait_for_response", [lit "msg.hello"], []);
         (lit "goto.msg.hello", lit "go_to", [lit "switch.Result"], [lit "msg.hello"]);
         (lit "goto.msg.hello.1", lit "go_to", [lit "switch.Result"], [lit "msg.hello"]);
         (lit "msg.hello.1", lit "send_message", [lit "switch.Result"; lit "switch.Result"], []);
         (lit "goto.switch.Result", lit "go_to", [lit "msg.hello.1"], [lit "switch.Result"]) ].
Proof. exact loops_flow_readable. Qed.
Print Assumptions C17_readable_ids_nonvacuous.

(* 7. the ids do not mention uuids: the id skeleton of the rows (row id, type, edge origins,
   go_to targets; a uuid-free type) is the same for a flow and for every injective renaming of it.
   Not a consequence of 1/2: it holds for EVERY flow, also those on which a uuid reaches some other
   cell of the sheet (where 1 only says [Ok None = Ok None] and 2 does not apply). *)
Theorem C17_ids_do_not_mention_uuids :
  forall (U U' : Type) (ueqb : U -> U -> bool) (ueqb' : U' -> U' -> bool),
    (forall a b, ueqb a b = true <-> a = b) ->
    (forall a b, ueqb' a b = true <-> a = b) ->
    forall sg : U -> U', (forall a b, sg a = sg b -> a = b) ->
    forall (numbered : bool) (nodes : list (node U)),
      rmap (map row_skel) (to_rows ueqb' numbered (map (rn_node U U' sg) nodes))
      = rmap (map row_skel) (to_rows ueqb numbered nodes).
Proof. exact ids_equivariant. Qed.
Print Assumptions C17_ids_do_not_mention_uuids.

(* 8. the conclusions above are conditional on "the export succeeds".  The model's own failure
   modes (out of fuel, internal error) never occur: an error of the model is always [ECrash], i.e.
   an exception of the Python code (dangling destination, action-less basic node, a kind of action
   the sheet vocabulary cannot express, ...), and it always comes from the DFS -- once the DFS has
   produced its rows the remapping of the ids cannot fail (every key is present; the `.counter`
   loop finds a free name within n+1 steps, by pigeonhole). *)
Theorem C17_errors_are_crashes :
  forall (U : Type) (ueqb : U -> U -> bool), (forall a b, ueqb a b = true <-> a = b) ->
  forall (numbered : bool) (nodes : list (node U)) (e : xerr),
    to_rows ueqb numbered nodes = Err e -> e = ECrash /\ to_rows_tmp ueqb nodes = Err ECrash.
Proof. exact to_rows_err. Qed.
Print Assumptions C17_errors_are_crashes.

Theorem C17_remapping_total :
  forall (U : Type) (ueqb : U -> U -> bool), (forall a b, ueqb a b = true <-> a = b) ->
  forall (numbered : bool) (nodes : list (node U)) (tmp : list (row U (tid U))),
    to_rows_tmp ueqb nodes = Ok tmp -> exists rows, to_rows ueqb numbered nodes = Ok rows.
Proof. exact remap_total. Qed.
Print Assumptions C17_remapping_total.

Example C17_errors_are_crashes_nonvacuous :
  to_rows N.eqb false dangling_flow = Err ECrash /\ to_rows_tmp N.eqb dangling_flow = Err ECrash.
Proof. exact dangling_flow_crashes. Qed.
Print Assumptions C17_errors_are_crashes_nonvacuous.

Example C17_remapping_total_nonvacuous :
  exists tmp, to_rows_tmp N.eqb loops_flow = Ok tmp /\ length tmp = 6%nat.
Proof. exact loops_flow_tmp. Qed.
Print Assumptions C17_remapping_total_nonvacuous.
