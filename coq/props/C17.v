(* C17 placeholder *)
