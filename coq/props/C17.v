(* C17 — `--strip_uuids` sheets do not depend on the uuids in the flow file.
   Only property theorems here, each closed by [exact] and followed by Print Assumptions.
   The model (Exp/ToRows.v) is written over an abstract uuid type with a boolean equality. *)
From Coq Require Import List NArith Bool.
From RPFT Require Import Base.Sexp Base.PyStr Base.Result Gen.Tables Exp.ToRows Exp.ToRowsFacts.
Import ListNotations.

(* 1. for every injective renaming of the uuids (even into another uuid type), numbered or not,
   the stripped export of the renamed flow is the stripped export of the flow.  The result type
   mentions no uuid: [Ok (Some sheet)], [Ok None] (a uuid reached a cell) or [Err _]. *)
Theorem C17_export_equivariant :
  forall (U U' : Type) (ueqb : U -> U -> bool) (ueqb' : U' -> U' -> bool),
    (forall a b, ueqb a b = true <-> a = b) ->
    (forall a b, ueqb' a b = true <-> a = b) ->
    forall sg : U -> U', (forall a b, sg a = sg b -> a = b) ->
    forall (numbered : bool) (nodes : list (node U)),
      export_strip ueqb' numbered (map (rn_node U U' sg) nodes) = export_strip ueqb numbered nodes.
Proof. exact export_equivariant. Qed.
Print Assumptions C17_export_equivariant.

Example C17_export_equivariant_nonvacuous :
  exists sheet, export_strip N.eqb false demo_flow = Ok (Some sheet) /\ length sheet = 5%nat
                /\ flow_ok demo_flow = true.
Proof. exact demo_flow_exports. Qed.
Print Assumptions C17_export_equivariant_nonvacuous.

(* 2. the sheet contains no uuid: on flows whose has_group cases occur only in group splits *)
Theorem C17_no_uuid_in_sheet :
  forall (U : Type) (ueqb : U -> U -> bool) (numbered : bool) (nodes : list (node U)),
    flow_ok nodes = true -> export_strip ueqb numbered nodes <> Ok None.
Proof. exact no_uuid_in_sheet. Qed.
Print Assumptions C17_no_uuid_in_sheet.

(* ... and the unrestricted statement is false of the faithful model (finding
   has_group-case-outside-group-split) *)
Theorem C17_no_uuid_in_sheet_refuted :
  exists nodes : list (node N), export_strip N.eqb false nodes = Ok None.
Proof. exact no_uuid_in_sheet_refuted. Qed.
Print Assumptions C17_no_uuid_in_sheet_refuted.

(* 4. every uuid-typed field of the regenerated FlowRowModel field list is written under a
   header that the regenerated exclusion set of to_row_data_sheet(strip_uuids=True) matches.
   Partial: "uuid-typed" is the model's inventory (node_uuid, obj_id); wa_template.uuid is the
   WhatsApp template's own identifier, outside the renamed kinds, and stays. *)
Theorem C17_excluded_cover_partial : header_of_uuid_fields_excluded = true.
Proof. exact excluded_cover. Qed.
Print Assumptions C17_excluded_cover_partial.
