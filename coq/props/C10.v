(* C10 — content index resolution is sequential with last definition winning.
   Only property theorems here, each closed by [exact] and followed by Print Assumptions. *)
From Coq Require Import List NArith ZArith Bool.
From RPFT Require Import Base.Sexp Base.PyStr Base.Result Gen.Tables Index.TagMatch Index.Index Index.IndexFacts.
Import ListNotations.

(* 4. ignore_row never removes a template *)
Theorem C10_ignore_never_template : forall n st, st_templates (ignore_row n st) = st_templates st.
Proof. exact ignore_never_template. Qed.
Print Assumptions C10_ignore_never_template.
