(* C10 — content index resolution is sequential with last definition winning.
   Only property theorems here, each closed by [exact] and followed by Print Assumptions.

   Vocabulary (Index/IndexSpec.v):  a HISTORY is the list of effective rows — the active rows
   of the root index sheets in reader order, nested indexes replaced in place by their own
   effective rows;  [run_rows] is the plain sequential fold over a history;  [spec_flows],
   [spec_camps], [spec_trigs], [spec_template] read the final registries off a history with
   no state (survivors of later ignore_rows; last value, first place);  [last_word] is the
   last row of a history that mentions a name. *)
From Coq Require Import List NArith ZArith Bool.
From RPFT Require Import Base.Sexp Base.PyStr Base.Result Base.ODict Gen.Tables
     Index.TagMatch Index.Index Index.DictFacts Index.IndexSpec Index.IndexFacts Index.IndexRegFacts
     Index.WorkbookFacts Index.TagMatchFacts Index.IndexExamples Index.IndexExampleFacts.
Import ListNotations.

(* ================================================================ 1. inactive rows *)

(* a draft row or a row whose tags fail the filter leaves the state unchanged, whatever
   else it says and whatever handles nested tables *)
Theorem C10_inactive_row_no_effect : forall rec pats wbs r st,
  r_status r = ci_draft \/ matches pats (r_tags r) = false ->
  step_row rec pats wbs r st = Ok st.
Proof. exact inactive_row_no_effect. Qed.
Print Assumptions C10_inactive_row_no_effect.

Theorem C10_inactive_no_effect : forall fuel pats wbs rows st,
  process fuel pats wbs rows st = process fuel pats wbs (filter (active pats) rows) st.
Proof. exact inactive_no_effect. Qed.
Print Assumptions C10_inactive_no_effect.

Example C10_inactive_nonvacuous :
  r_status r_draft = ci_draft /\
  matches ex_pats (r_tags r_flowC_tag_b) = false /\ r_status r_flowC_tag_b <> ci_draft /\
  matches ex_pats (r_tags r_flowA_tag_a) = true.
Proof. exact ex_inactive. Qed.
Print Assumptions C10_inactive_nonvacuous.

Example C10_inactive_filter_nontrivial :
  filter (active ex_pats) ex_root1 =
  [r_flowA_tag_a; r_flowB_as_X; r_flowA_as_X; r_camp1; r_ignoreA; r_nest; r_trig].
Proof. exact ex_filter_nontrivial. Qed.
Print Assumptions C10_inactive_filter_nontrivial.

(* ================================================================ 2. nested indexes in place *)

(* an active content_index row whose sheet resolves to an index table = the rows of that
   table written in its place: the same final state or the same error.  Fuel: the rows
   must unfold within [fuel], which by C10_fuel_bound means nesting depth <= fuel. *)
Theorem C10_nested_in_place : forall fuel pats wbs pre r sub post t st,
  nestable pats wbs r = Some sub ->
  expand fuel pats wbs (pre ++ r :: post) = Some t ->
  process fuel pats wbs (pre ++ r :: post) st = process fuel pats wbs (pre ++ sub ++ post) st.
Proof. exact nested_in_place. Qed.
Print Assumptions C10_nested_in_place.

Theorem C10_nested_in_place_history : forall fuel pats wbs pre r sub post t,
  nestable pats wbs r = Some sub ->
  expand fuel pats wbs (pre ++ r :: post) = Some t ->
  exists t', expand fuel pats wbs (pre ++ sub ++ post) = Some t' /\ flatten pats t' = flatten pats t.
Proof. exact nested_in_place_history. Qed.
Print Assumptions C10_nested_in_place_history.

Example C10_nested_nonvacuous :
  ex_root1 = ex_pre ++ r_nest :: [r_trig] /\
  nestable ex_pats ex_wbs r_nest = Some ex_sub /\
  option_map depth (expand ex_fuel ex_pats ex_wbs (ex_pre ++ r_nest :: [r_trig])) = Some 1.
Proof. exact ex_nested. Qed.
Print Assumptions C10_nested_nonvacuous.

(* the fuel bound, explicitly: fuel suffices iff it is at least the nesting depth *)
Theorem C10_fuel_bound : forall fuel pats wbs rows t,
  expand fuel pats wbs rows = Some t <->
  (exists f0, expand f0 pats wbs rows = Some t) /\ depth t <= fuel.
Proof. exact fuel_bound. Qed.
Print Assumptions C10_fuel_bound.

Example C10_fuel_nonvacuous :
  expand 0 ex_pats ex_wbs ex_root1 = None /\
  option_map depth (expand 1 ex_pats ex_wbs ex_root1) = Some 1.
Proof. exact ex_fuel_needed. Qed.
Print Assumptions C10_fuel_nonvacuous.

(* the fold over an index table (any depth of nesting) is the plain fold over its history;
   a run that ends well never ran out of fuel *)
Theorem C10_process_history : forall fuel pats wbs rows t st,
  expand fuel pats wbs rows = Some t ->
  process fuel pats wbs rows st = run_rows wbs (flatten pats t) st.
Proof. exact process_history. Qed.
Print Assumptions C10_process_history.

Theorem C10_process_ok_expand : forall fuel pats wbs rows st st',
  process fuel pats wbs rows st = Ok st' -> exists t, expand fuel pats wbs rows = Some t.
Proof. exact process_ok_expand. Qed.
Print Assumptions C10_process_ok_expand.

Example C10_process_nonvacuous :
  rmap (fun st => map fd_key (st_flows st)) (process ex_fuel ex_pats ex_wbs ex_root1 st0) = Ok [sX; sX; sA].
Proof. exact ex_process_ok. Qed.
Print Assumptions C10_process_nonvacuous.

(* ================================================================ 3. last definition wins *)

(* the registries a sequential run ends with ARE the declarative reading of its history *)
Theorem C10_registries : forall wbs rows st,
  run_rows wbs rows st0 = Ok st ->
  st_flows st = spec_flows rows /\
  st_camps st = spec_camps wbs rows /\
  st_trigs st = spec_trigs wbs rows /\
  st_templates st = of_list (tmpl_defs wbs rows).
Proof. exact run_rows_registries. Qed.
Print Assumptions C10_registries.

Example C10_registries_nonvacuous :
  rmap (fun st => (map fd_key (st_flows st), okeys (st_camps st))) (run_rows ex_wbs ex_hist st0) =
  Ok ([sX; sX; sA; sC], [sCamp]).
Proof. exact ex_run_rows. Qed.
Print Assumptions C10_registries_nonvacuous.

(* the same from any reachable state: what nobody ignored later, updated by the survivors *)
Theorem C10_registries_from : forall wbs rows st st',
  regs_nodup st -> run_rows wbs rows st = Ok st' ->
  st_flows st' = filter (fun f => negb (ignored_later rows (fd_key f))) (st_flows st) ++ spec_flows rows /\
  st_camps st' = oupdate str_eqb (filter (fun kv => negb (ignored_later rows (fst kv))) (st_camps st))
                         (survivors str_eqb row_ignores (row_camp wbs) rows) /\
  st_trigs st' = oupdate str_eqb (filter (fun kv => negb (ignored_later rows (fst kv))) (st_trigs st))
                         (survivors str_eqb row_ignores (row_trig wbs) rows) /\
  st_templates st' = oupdate str_eqb (st_templates st) (tmpl_defs wbs rows).
Proof. exact run_rows_registries_from. Qed.
Print Assumptions C10_registries_from.

(* a create_flow definition survives iff no LATER row of the history is an ignore_row of
   its (new) name *)
Theorem C10_flow_survives_iff : forall rows f,
  In f (spec_flows rows) <->
  exists pre r post, rows = pre ++ r :: post /\ row_flow r = Some f /\ ignored_later post (fd_key f) = false.
Proof. exact spec_flows_in. Qed.
Print Assumptions C10_flow_survives_iff.

Theorem C10_ignored_later_spec : forall rows n,
  ignored_later rows n = true <-> exists r, In r rows /\ row_ignores r = Some n.
Proof. exact ignored_later_spec. Qed.
Print Assumptions C10_ignored_later_spec.

(* campaign n / trigger sheet n / template n: decided by the LAST row that mentions n *)
Theorem C10_camp_last_word : forall wbs rows st n,
  run_rows wbs rows st0 = Ok st ->
  sget (st_camps st) n =
  match last_word str_eqb row_ignores (row_camp wbs) rows n with Some w => w | None => None end.
Proof. exact camp_last_word. Qed.
Print Assumptions C10_camp_last_word.

Theorem C10_trig_last_word : forall wbs rows st n,
  run_rows wbs rows st0 = Ok st ->
  sget (st_trigs st) n =
  match last_word str_eqb row_ignores (row_trig wbs) rows n with Some w => w | None => None end.
Proof. exact trig_last_word. Qed.
Print Assumptions C10_trig_last_word.

Theorem C10_tmpl_last_word : forall wbs rows st n,
  run_rows wbs rows st0 = Ok st ->
  sget (st_templates st) n =
  match last_word str_eqb never (row_tmpl wbs) rows n with Some w => w | None => None end.
Proof. exact tmpl_last_word. Qed.
Print Assumptions C10_tmpl_last_word.

(* what "the last row that mentions n" means *)
Theorem C10_last_word_spec : forall (ign : irow -> option str) (V : Type) (def : irow -> option (str * V)) rows n w,
  last_word str_eqb ign def rows n = Some w <->
  exists pre r post, rows = pre ++ r :: post /\ last_word str_eqb ign def post n = None /\
    ((exists m, ign r = Some m /\ str_eqb m n = true /\ w = None) \/
     (exists k v, ign r = None /\ def r = Some (k, v) /\ str_eqb k n = true /\ w = Some v)).
Proof. exact last_word_spec_str. Qed.
Print Assumptions C10_last_word_spec.

Example C10_last_word_nonvacuous :
  last_word str_eqb row_ignores keyed_flow ex_hist sA = Some (Some (mk_fdef sA [] [] [])) /\
  last_word str_eqb row_ignores keyed_flow (firstn 5 ex_hist) sA = Some None /\
  last_word str_eqb row_ignores keyed_flow ex_hist sX = Some (Some (mk_fdef sA sX [] [])) /\
  last_word str_eqb row_ignores keyed_flow ex_hist sB = None /\
  last_word str_eqb row_ignores (row_camp ex_wbs) ex_hist sCamp = Some (Some ((0, sC1), s_g2)).
Proof. exact ex_last_word. Qed.
Print Assumptions C10_last_word_nonvacuous.

(* the whole run: tag matcher, every root index in reader order, nested indexes in place,
   missing templates, parse_all.  Flows are the by-name dictionary of the instances of the
   surviving definitions: place of the first, content of the last, names unique. *)
Theorem C10_last_definition_wins : forall fuel params wbs out,
  create_flows fuel params wbs = Ok out ->
  exists pats hist st insts,
    tag_matcher params = Some pats /\
    history fuel pats wbs = Some hist /\
    resolved wbs hist st /\
    all_instances st (spec_flows hist) = Ok insts /\
    o_flows out = map snd (of_list insts) /\
    flows_by_name insts (o_flows out) /\
    o_camps out = map (fun e => mk_ocamp (fst e) (fst (snd e)) (snd (snd e))) (spec_camps wbs hist) /\
    o_trigs out = flat_map trig_rows (spec_trigs wbs hist) /\
    (forall t, In t (o_trigs out) -> In (ot_flow t) (map of_name (o_flows out))).
Proof. exact create_flows_spec. Qed.
Print Assumptions C10_last_definition_wins.

Example C10_last_definition_wins_nonvacuous :
  rmap ex_view (create_flows ex_fuel ex_params ex_wbs) =
  Ok ([sX; sA; sC_r1; sC_r2], [(1, sA); (1, sA); (1, sC); (1, sC)], [s_t1; s_t1; []; []],
      [mk_ocamp sCamp (0, sC1) s_g2], [mk_otrig (0, sT1) 0 sX]).
Proof. exact ex_run. Qed.
Print Assumptions C10_last_definition_wins_nonvacuous.

Example C10_history_nonvacuous :
  tag_matcher ex_params = Some ex_pats /\ history ex_fuel ex_pats ex_wbs = Some ex_hist.
Proof. exact ex_history. Qed.
Print Assumptions C10_history_nonvacuous.

(* output flow names are unique; first place, last content *)
Theorem C10_flows_by_name : forall insts,
  Forall well_named insts -> flows_by_name insts (map snd (of_list insts)).
Proof. exact of_list_flows_by_name. Qed.
Print Assumptions C10_flows_by_name.

Theorem C10_flow_exists_iff : forall st fl insts flows n,
  all_instances st fl = Ok insts -> flows_by_name insts flows ->
  (In n (map of_name flows) <->
   exists f l, In f fl /\ instances st f = Ok l /\ In n (map fst l)).
Proof. exact flow_exists_iff. Qed.
Print Assumptions C10_flow_exists_iff.

(* DESIGN §5-C10 item 3 for create_flow rows without data sheet: the output flow named n
   exists iff the LAST row of the history mentioning n (as a create_flow (new) name or as an
   ignore_row) is a create_flow row, and it is built from that row *)
Theorem C10_plain_flow_last_word : forall hist st insts flows,
  Forall plain (spec_flows hist) ->
  all_instances st (spec_flows hist) = Ok insts -> flows_by_name insts flows ->
  forall n o,
    (In o flows /\ of_name o = n) <->
    exists f, last_word str_eqb row_ignores keyed_flow hist n = Some (Some f) /\
              parse_flow st f n None = Ok (n, o).
Proof. exact plain_flow_last_word. Qed.
Print Assumptions C10_plain_flow_last_word.

Example C10_plain_flow_nonvacuous :
  Forall plain (spec_flows ex_hist1) /\
  exists st insts flows,
    load ex_fuel ex_pats [ex_wb1] = Ok st /\
    all_instances st (spec_flows ex_hist1) = Ok insts /\ flows_by_name insts flows /\
    map of_name flows = [sX; sA].
Proof. exact ex_plain. Qed.
Print Assumptions C10_plain_flow_nonvacuous.

(* ... and read literally for ALL rows that item is false (one flow per data row is named
   "<name> - <row id>"): the statement above is about definitions, as the property text is *)
Theorem C10_design_item3_literal_refuted : ~ design_item3_literal.
Proof. exact design_item3_literal_refuted. Qed.
Print Assumptions C10_design_item3_literal_refuted.

(* ================================================================ 3''. the data-sheet registry *)

(* a data_sheet row (re)defines exactly one name — a later definition replaces an earlier
   one — from the registry as it stands just before it; merely reading a sheet registers
   nothing; no other row, ignore_row included, touches the entry *)
Theorem C10_data_row_defines : forall wbs r st st' n,
  step_other wbs r st = Ok st' -> row_data_key r = Some n ->
  exists model rows st1,
    concat_data wbs (r_sheets r) None [] st = Ok (model, rows, st1) /\
    st_data st' = sset (st_data st) n (mk_dsheet (match model with Some m => m | None => 0 end) rows).
Proof. exact data_row_defines. Qed.
Print Assumptions C10_data_row_defines.

Theorem C10_data_row_frame : forall wbs r st st' n,
  step_other wbs r st = Ok st' -> row_data_key r <> Some n ->
  sget (st_data st') n = sget (st_data st) n.
Proof. exact data_row_frame. Qed.
Print Assumptions C10_data_row_frame.

Theorem C10_data_last_definition : forall wbs pre r post st' n,
  run_rows wbs (pre ++ r :: post) st0 = Ok st' ->
  row_data_key r = Some n ->
  (forall r', In r' post -> row_data_key r' <> Some n) ->
  exists st1 model rows st2,
    run_rows wbs pre st0 = Ok st1 /\
    concat_data wbs (r_sheets r) None [] st1 = Ok (model, rows, st2) /\
    sget (st_data st') n = Some (mk_dsheet (match model with Some m => m | None => 0 end) rows).
Proof. exact data_last_definition. Qed.
Print Assumptions C10_data_last_definition.

Theorem C10_data_never_defined : forall wbs rows st' n,
  run_rows wbs rows st0 = Ok st' ->
  (forall r, In r rows -> row_data_key r <> Some n) ->
  sget (st_data st') n = None.
Proof. exact data_never_defined. Qed.
Print Assumptions C10_data_never_defined.

Example C10_data_nonvacuous :
  ex_hist = firstn 9 ex_hist ++ r_data :: [r_flowC_data] /\
  row_data_key r_data = Some sD1 /\ row_data_key r_flowC_data = None /\
  rmap (fun st => option_map (fun ds => okeys (ds_rows ds)) (sget (st_data st) sD1))
       (run_rows ex_wbs ex_hist st0) = Ok (Some [s_r1; s_r2]).
Proof. exact ex_data. Qed.
Print Assumptions C10_data_nonvacuous.

(* ================================================================ 4. ignore_row *)

Theorem C10_ignore_never_template : forall n st, st_templates (ignore_row n st) = st_templates st.
Proof. exact ignore_never_template. Qed.
Print Assumptions C10_ignore_never_template.

(* ignore_row n removes exactly the flow definitions, the campaign and the trigger sheet of
   name n: nothing else changes, order is kept *)
Theorem C10_ignore_row_exact : forall n st,
  NoDup (okeys (st_camps st)) -> NoDup (okeys (st_trigs st)) ->
  let st' := ignore_row n st in
  st_templates st' = st_templates st /\ st_data st' = st_data st /\ st_models st' = st_models st /\
  (forall f, In f (st_flows st') <-> In f (st_flows st) /\ fd_key f <> n) /\
  st_flows st' = filter (fun f => negb (str_eqb (fd_key f) n)) (st_flows st) /\
  (forall k, sget (st_camps st') k = if str_eqb n k then None else sget (st_camps st) k) /\
  okeys (st_camps st') = filter (fun k => negb (str_eqb k n)) (okeys (st_camps st)) /\
  (forall k, sget (st_trigs st') k = if str_eqb n k then None else sget (st_trigs st) k) /\
  okeys (st_trigs st') = filter (fun k => negb (str_eqb k n)) (okeys (st_trigs st)).
Proof. exact ignore_row_exact. Qed.
Print Assumptions C10_ignore_row_exact.

(* its hypotheses hold in every state a run reaches *)
Theorem C10_reachable_nodup : forall wbs rows st,
  run_rows wbs rows st0 = Ok st ->
  NoDup (okeys (st_camps st)) /\ NoDup (okeys (st_trigs st)).
Proof. exact reachable_nodup. Qed.
Print Assumptions C10_reachable_nodup.

Example C10_ignore_nonvacuous :
  exists st, run_rows ex_wbs (firstn 8 ex_hist) st0 = Ok st /\
    NoDup (okeys (st_camps st)) /\ NoDup (okeys (st_trigs st)) /\
    sget (st_camps st) sCamp <> None /\ map fd_key (st_flows st) = [sX; sX; sA] /\
    okeys (st_templates st) = [sA].
Proof. exact ex_ignore. Qed.
Print Assumptions C10_ignore_nonvacuous.

Example C10_ignore_effect_nonvacuous :
  rmap ex_ignore_view (run_rows ex_wbs (firstn 8 ex_hist) st0) =
  Ok (Some ((0, sC1), s_g2), None, [sX; sX; sA], [sA], [sA]).
Proof. exact ex_ignore_compute. Qed.
Print Assumptions C10_ignore_effect_nonvacuous.

(* ================================================================ 5. several workbooks *)

(* one candidate per reader that has the sheet, in reader (= input) order *)
Theorem C10_candidates_spec : forall wbs name,
  candidates wbs name = flat_map (candidate_of name) (number_from 0 wbs).
Proof. exact candidates_spec. Qed.
Print Assumptions C10_candidates_spec.

(* a sheet name resolves to the copy in the LAST workbook that has it *)
Theorem C10_resolve_spec : forall wbs name j n' b,
  resolve wbs name = Some ((j, n'), b) <->
  n' = name /\
  exists pre wb post, wbs = pre ++ wb :: post /\ j = length pre /\
                      wb_get wb name = Some b /\ Forall (lacks name) post.
Proof. exact resolve_spec. Qed.
Print Assumptions C10_resolve_spec.

Theorem C10_resolve_none : forall wbs name,
  resolve wbs name = None <-> Forall (lacks name) wbs.
Proof. exact resolve_none. Qed.
Print Assumptions C10_resolve_none.

(* all root index sheets are folded in input order, on one state: the run is the plain
   fold over the concatenation of their histories *)
Theorem C10_indices_in_input_order : forall fuel pats wbs idxs h st,
  histories fuel pats wbs idxs = Some h ->
  process_indices fuel pats wbs idxs st = run_rows wbs h st.
Proof. exact process_indices_history. Qed.
Print Assumptions C10_indices_in_input_order.

Theorem C10_load_history : forall fuel pats wbs st,
  load fuel pats wbs = Ok st ->
  exists h st1, candidates wbs ci_root_sheet <> [] /\
                history fuel pats wbs = Some h /\
                run_rows wbs h st0 = Ok st1 /\
                populate wbs (st_flows st1) st1 = Ok st.
Proof. exact load_history. Qed.
Print Assumptions C10_load_history.

Example C10_multi_workbook_nonvacuous :
  resolve ex_wbs sA = Some ((1, sA), BFlow) /\
  resolve [ex_wb2; ex_wb1] sA = Some ((1, sA), BFlow) /\
  resolve ex_wbs sB = Some ((0, sB), BFlow) /\
  resolve ex_wbs s_a = None /\
  candidates ex_wbs ci_root_sheet = [((0, ci_root_sheet), BIndex ex_root1); ((1, ci_root_sheet), BIndex ex_root2)].
Proof. exact ex_resolve. Qed.
Print Assumptions C10_multi_workbook_nonvacuous.

(* ================================================================ 6. the tag matcher *)

Theorem C10_tagmatch_spec : forall pats tags,
  matches pats tags = true <->
  forall i tag, nth_error tags i = Some tag -> tag <> [] ->
                (exists p, In (Z.of_nat i, p) pats) -> In (Z.of_nat i, tag) pats.
Proof. exact matches_spec. Qed.
Print Assumptions C10_tagmatch_spec.

Theorem C10_tag_matcher_fails_iff : forall params,
  tag_matcher params = None <-> exists p rest, params = p :: rest /\ py_int p = None.
Proof. exact tag_matcher_none. Qed.
Print Assumptions C10_tag_matcher_fails_iff.

Example C10_tagmatch_nonvacuous :
  matches ex_pats [s_a] = true /\ matches ex_pats [s_b] = false /\
  matches ex_pats [[]; s_b] = true /\ matches ex_pats [] = true /\
  tag_matcher [s_a] = None /\ tag_matcher [s_1; s_a] = Some ex_pats.
Proof. exact ex_matches. Qed.
Print Assumptions C10_tagmatch_nonvacuous.
