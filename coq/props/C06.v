(* C06 — one name, one UUID.  Only property theorems, each closed by [exact]. *)
From Coq Require Import List NArith Bool.
From RPFT Require Import Base.Sexp Base.PyStr Base.Result Gen.Tables Uuid.UuidDict Uuid.Container Uuid.UuidFacts.
Import ListNotations.

(* the regenerated tables satisfy what the proofs need *)
Theorem C06_tables_ok : uuid_tables_ok = true.
Proof. exact uuid_tables_ok_true. Qed.
Print Assumptions C06_tables_ok.
