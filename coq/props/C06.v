(* C06 — one name, one UUID.  Only property theorems, each closed by [exact].
   Objects: [validate]/[step]/[run]/[render_n]/[run_trace]/[occs] of Uuid/Container.v (the mirror of
   RapidProContainer.update_global_uuids / validate / render with the dictionary persisting),
   instantiated with the hook tables regenerated from the source tree.  No size bound anywhere.
   Side conditions, all of them invariants of reachable states (C06_history_invariant):
     dict_wf          the two dictionaries have no duplicate key
     flows_have_uuid  a flow object has a uuid (FlowContainer.__init__: uuid or generate_new_uuid()) *)
From Coq Require Import List NArith Bool.
From RPFT Require Import Base.Sexp Base.PyStr Base.Result Gen.Tables Uuid.UuidDict Uuid.Container
  Uuid.UuidFacts Uuid.ContainerFacts Uuid.ContainerExamples Uuid.Sheet Uuid.SheetFacts.
Import ListNotations.

(* the regenerated tables satisfy what the proofs need: record hooks and assign hooks visit
   the same references; group actions, enter_flow and has_group are among them *)
Theorem C06_tables_ok : uuid_tables_ok = true.
Proof. exact uuid_tables_ok_true. Qed.
Print Assumptions C06_tables_ok.

(* ---- 1. one name, one uuid ---- *)
(* after a successful validate: every occurrence (top-level group list, flow definitions, group
   actions, has_group tests, enter_flow actions, campaign events and groups, trigger flow /
   groups / exclude groups) carries a truthy uuid which is the dictionary's entry; hence equal
   uuids for equal (kind, name); every referenced group is listed exactly once at top level;
   every reference to a defined flow carries the flow's own uuid *)
Theorem C06_one_name_one_uuid : forall st st',
  dict_wf (st_d st) -> flows_have_uuid (st_c st) -> validate st = Ok st' ->
  (forall k n u, In (k, (n, u)) (occs (st_c st')) -> truthy u = true /\ dget (sel k (st_d st')) n = Some u)
  /\ (forall k n u1 u2, In (k, (n, u1)) (occs (st_c st')) -> In (k, (n, u2)) (occs (st_c st')) -> u1 = u2)
  /\ (forall n u, In (KGroup, (n, u)) (occs (st_c st')) -> count_occ name_dec (map fst (groups (st_c st'))) n = 1)
  /\ (forall f u, In f (flows (st_c st')) -> In (KFlow, (f_name f, u)) (occs (st_c st')) -> u = f_uuid f).
Proof. exact one_name_one_uuid. Qed.
Print Assumptions C06_one_name_one_uuid.

(* the same for every reachable state: any container, any history of operations *)
Theorem C06_one_name_one_uuid_reachable : forall c ops st st',
  flows_have_uuid c -> Forall op_ok ops -> run ops (init c) = Ok st -> validate st = Ok st' ->
  one_name_one_uuid_at st'.
Proof. exact one_name_one_uuid_run. Qed.
Print Assumptions C06_one_name_one_uuid_reachable.

Example C06_one_name_one_uuid_nonvacuous :
  dict_wf (st_d (init ex_c)) /\ flows_have_uuid (st_c (init ex_c)) /\ validate (init ex_c) = Ok ex_st
  /\ In (KGroup, (nB, Some (Fresh 1))) (occs (st_c ex_st)) /\ In (KGroup, (nA, U1)) (occs (st_c ex_st))
  /\ In (KFlow, (nH, Some (Fresh 0))) (occs (st_c ex_st))
  /\ length (occs (st_c ex_st)) = 20%nat.
Proof. exact one_name_one_uuid_nonvacuous. Qed.
Print Assumptions C06_one_name_one_uuid_nonvacuous.

(* the side condition is needed: a flow object WITHOUT uuid (which the constructor makes
   impossible) would render its own uuid as None and the references to it with an invented one *)
Example C06_one_name_one_uuid_needs_flow_uuid : exists st',
  dict_wf (st_d (init ex_nouuid)) /\ validate (init ex_nouuid) = Ok st'
  /\ In (KFlow, (nF, None)) (occs (st_c st')) /\ In (KFlow, (nF, Some (Fresh 0))) (occs (st_c st')).
Proof. exact one_name_one_uuid_needs_flow_uuid. Qed.
Print Assumptions C06_one_name_one_uuid_needs_flow_uuid.

(* ---- 2. an explicit uuid wins, wherever it sits ---- *)
(* [explicit_source st k n u]: u sits at ANY occurrence of (k, n) in the container (container
   group list, flow definition, any reference, in any position) or in the persisted dictionary
   (record_group_uuid / record_flow_uuid: sheet obj_id) *)
Theorem C06_explicit_wins : forall st st' k n u,
  dict_wf (st_d st) -> flows_have_uuid (st_c st) -> validate st = Ok st' ->
  truthy u = true -> explicit_source st k n u ->
  dget (sel k (st_d st')) n = Some u /\ forall u', In (k, (n, u')) (occs (st_c st')) -> u' = u.
Proof. exact explicit_wins. Qed.
Print Assumptions C06_explicit_wins.

Example C06_explicit_wins_nonvacuous :
  (validate (init ex_c) = Ok ex_st /\ truthy U1 = true /\ explicit_source (init ex_c) KGroup nA U1)
  /\ (exists st', validate (init ex_late) = Ok st' /\ flows_have_uuid ex_late
        /\ explicit_source (init ex_late) KGroup nA U1
        /\ nth_error (occs (st_c (init ex_late))) 17 = Some (KGroup, (nA, U1))
        /\ nth_error (occs (st_c (init ex_late))) 2 = Some (KGroup, (nA, None))
        /\ nth_error (occs (st_c st')) 4 = Some (KGroup, (nA, U1))).
Proof. exact explicit_wins_nonvacuous. Qed.
Print Assumptions C06_explicit_wins_nonvacuous.

(* ---- 3. two different explicit uuids for one name are rejected ---- *)
Theorem C06_conflict_rejected : forall st k n u1 u2,
  truthy u1 = true -> truthy u2 = true -> u1 <> u2 ->
  explicit_source st k n u1 -> explicit_source st k n u2 ->
  validate st = Err EConflict \/ validate st = Err EUnknownFlow.
Proof. exact conflict_rejected. Qed.
Print Assumptions C06_conflict_rejected.

(* ... with the conflict error itself whenever no trigger names an unknown flow *)
Theorem C06_conflict_rejected_exact : forall st k n u1 u2,
  truthy u1 = true -> truthy u2 = true -> u1 <> u2 ->
  explicit_source st k n u1 -> explicit_source st k n u2 ->
  (forall t, In t (triggers (st_c st)) -> flow_known_now st (fst (t_flow t)) = true) ->
  validate st = Err EConflict.
Proof. exact conflict_rejected_exact. Qed.
Print Assumptions C06_conflict_rejected_exact.

Example C06_conflict_rejected_nonvacuous :
  truthy U1 = true /\ truthy U2 = true /\ U1 <> U2
  /\ explicit_source (init ex_conflict) KGroup nA U1 /\ explicit_source (init ex_conflict) KGroup nA U2
  /\ (forall t, In t (triggers ex_conflict) -> flow_known_now (init ex_conflict) (fst (t_flow t)) = true)
  /\ validate (init ex_conflict) = Err EConflict.
Proof. exact conflict_rejected_nonvacuous. Qed.
Print Assumptions C06_conflict_rejected_nonvacuous.

(* "always THE conflict error" is refuted (still an error, as the property demands): *)
Example C06_conflict_always_conflict_error_refuted :
  explicit_source (init ex_conflict_ghost) KGroup nA U1 /\ explicit_source (init ex_conflict_ghost) KGroup nA U2
  /\ validate (init ex_conflict_ghost) = Err EUnknownFlow.
Proof. exact conflict_error_not_always_first. Qed.
Print Assumptions C06_conflict_always_conflict_error_refuted.

(* the only errors of validate: the assign loops never meet a missing key *)
Theorem C06_validate_errors : forall st e, validate st = Err e -> e = EConflict \/ e = EUnknownFlow.
Proof. exact validate_errors. Qed.
Print Assumptions C06_validate_errors.

(* ---- 4. rendering again changes nothing ---- *)
(* the whole state — dictionary, counter, container — is a fixed point after the first call *)
Theorem C06_validate_idempotent : forall st st',
  dict_wf (st_d st) -> validate st = Ok st' -> validate st' = Ok st'.
Proof. exact validate_idempotent. Qed.
Print Assumptions C06_validate_idempotent.

Theorem C06_render_n : forall k st st',
  dict_wf (st_d st) -> validate st = Ok st' -> render_n (S k) st = Ok st'.
Proof. exact render_n_fixed. Qed.
Print Assumptions C06_render_n.

Example C06_validate_idempotent_nonvacuous :
  validate (init ex_c) = Ok ex_st /\ ctr (st_d ex_st) = 2%nat /\ st_d ex_st <> st_d (init ex_c)
  /\ render_n 3 (init ex_c) = Ok ex_st.
Proof. exact validate_idempotent_nonvacuous. Qed.
Print Assumptions C06_validate_idempotent_nonvacuous.

(* histories: the side conditions are invariants of every operation ... *)
Theorem C06_history_invariant : forall ops st st',
  hist_inv st -> Forall op_ok ops -> run ops st = Ok st' -> hist_inv st'.
Proof. exact run_hist_inv. Qed.
Print Assumptions C06_history_invariant.

(* ... a truthy binding of the dictionary is never changed by any operation ... *)
Theorem C06_binding_permanent : forall ops st st' k n u,
  run ops st = Ok st' -> dget (sel k (st_d st)) n = Some u -> truthy u = true ->
  dget (sel k (st_d st')) n = Some u.
Proof. exact run_binding_permanent. Qed.
Print Assumptions C06_binding_permanent.

(* ... and all renders of one history agree with each other: in the trace that the
   correspondence compares with the implementation, any two snapshots give one (kind, name)
   the same truthy uuid, which is also the one the dictionary had at the start, if any *)
Theorem C06_history_renders_agree : forall ops st i snaps stop,
  hist_inv st -> Forall op_ok ops -> run_trace ops st i = (snaps, stop) ->
  (forall s k n u, In s snaps -> In (k, (n, u)) (fst s) ->
     truthy u = true /\ forall r, dget (sel k (st_d st)) n = Some r -> truthy r = true -> r = u)
  /\ (forall s1 s2 k n u1 u2, In s1 snaps -> In s2 snaps ->
        In (k, (n, u1)) (fst s1) -> In (k, (n, u2)) (fst s2) -> u1 = u2).
Proof. exact run_trace_consistent. Qed.
Print Assumptions C06_history_renders_agree.

(* ---- 5. triggers ---- *)
(* [flow_known_now st n]: n is a key of the flow dictionary, the name of a flow of the
   container, or the name of an enter_flow action / campaign event flow — i.e. known to the
   container in some way when the triggers are reached ("unknown", not "undefined") *)
Theorem C06_trigger_unknown_flow_rejected : forall st t,
  In t (triggers (st_c st)) -> flow_known_now st (fst (t_flow t)) = false ->
  validate st = Err EUnknownFlow \/ validate st = Err EConflict.
Proof. exact trigger_unknown_flow_rejected. Qed.
Print Assumptions C06_trigger_unknown_flow_rejected.

(* the trigger error is raised only for such a trigger *)
Theorem C06_trigger_error_only_unknown : forall st,
  validate st = Err EUnknownFlow ->
  exists t, In t (triggers (st_c st)) /\ flow_known_now st (fst (t_flow t)) = false.
Proof. exact trigger_error_only_unknown. Qed.
Print Assumptions C06_trigger_error_only_unknown.

(* when validate succeeds every trigger's flow reference carries the one uuid of that name *)
Theorem C06_trigger_flow_resolved : forall st st' t,
  dict_wf (st_d st) -> flows_have_uuid (st_c st) -> validate st = Ok st' -> In t (triggers (st_c st')) ->
  truthy (snd (t_flow t)) = true
  /\ dget (fd (st_d st')) (fst (t_flow t)) = Some (snd (t_flow t))
  /\ forall u, In (KFlow, (fst (t_flow t), u)) (occs (st_c st')) -> u = snd (t_flow t).
Proof. exact trigger_flow_resolved. Qed.
Print Assumptions C06_trigger_flow_resolved.

Example C06_trigger_unknown_nonvacuous :
  In (trig (nZ, None) (nB, None)) (triggers (st_c (init ex_ghost)))
  /\ flow_known_now (init ex_ghost) nZ = false
  /\ validate (init ex_ghost) = Err EUnknownFlow.
Proof. exact trigger_unknown_nonvacuous. Qed.
Print Assumptions C06_trigger_unknown_nonvacuous.

(* a trigger for a flow that is only referenced (it lives on the server) is accepted *)
Example C06_trigger_referenced_only_accepted :
  validate (init ex_c) = Ok ex_st
  /\ flow_known_now (init ex_c) nH = true
  /\ existsb (fun f => str_eqb (f_name f) nH) (flows ex_c) = false
  /\ In {| t_flow := (nH, Some (Fresh 0)); t_groups := [(nB, Some (Fresh 1))]; t_exclude := [(nB, Some (Fresh 1))] |}
       (triggers (st_c ex_st)).
Proof. exact trigger_referenced_only_accepted. Qed.
Print Assumptions C06_trigger_referenced_only_accepted.

(* ---- 6. invented uuids ---- *)
(* the invariant [fresh_inv_now]: no duplicate keys; the counter is above every Fresh of the
   dictionary; no two (kind, name) share a Fresh; a Fresh in the container is the dictionary's
   value.  It holds initially and is kept by every operation whose arguments carry no uuid
   invented by this container (uuid4 modelled as a counter: a Fresh never equals a Given) *)
Theorem C06_fresh_invariant_init : forall c, container_nofresh c -> fresh_inv_now (init c).
Proof. exact fresh_inv_init. Qed.
Print Assumptions C06_fresh_invariant_init.

Theorem C06_fresh_invariant_step : forall st o st',
  fresh_inv_now st -> op_nofresh o -> step st o = Ok st' -> fresh_inv_now st'.
Proof. exact fresh_inv_step. Qed.
Print Assumptions C06_fresh_invariant_step.

(* so along any history: an invented uuid is bound to exactly one (kind, name), in the
   dictionary and among the occurrences of the container *)
Theorem C06_fresh_uuids_unique : forall c ops st',
  container_nofresh c -> Forall op_nofresh ops -> run ops (init c) = Ok st' ->
  (forall k n m, dget (sel k (st_d st')) n = Some (Some (Fresh m)) -> m < ctr (st_d st'))
  /\ (forall k1 n1 k2 n2 m, dget (sel k1 (st_d st')) n1 = Some (Some (Fresh m)) ->
        dget (sel k2 (st_d st')) n2 = Some (Some (Fresh m)) -> k1 = k2 /\ n1 = n2)
  /\ (forall k n m, In (k, (n, Some (Fresh m))) (occs (st_c st')) -> dget (sel k (st_d st')) n = Some (Some (Fresh m)))
  /\ (forall k1 n1 k2 n2 m, In (k1, (n1, Some (Fresh m))) (occs (st_c st')) ->
        In (k2, (n2, Some (Fresh m))) (occs (st_c st')) -> k1 = k2 /\ n1 = n2).
Proof. exact fresh_uuids_unique. Qed.
Print Assumptions C06_fresh_uuids_unique.

(* what one validate invents occurs nowhere in the state before, and it invents only for a
   (kind, name) that has no explicit uuid anywhere *)
Theorem C06_invented_is_new : forall st st' k n m,
  fresh_inv_now st -> validate st = Ok st' ->
  dget (sel k (st_d st')) n = Some (Some (Fresh m)) -> ctr (st_d st) <= m ->
  (forall k0 n0, dget (sel k0 (st_d st)) n0 <> Some (Some (Fresh m)))
  /\ (forall k0 n0, ~ In (k0, (n0, Some (Fresh m))) (occs (st_c st)))
  /\ (forall u, truthy u = true -> ~ explicit_source st k n u).
Proof. exact invented_is_new. Qed.
Print Assumptions C06_invented_is_new.

Example C06_fresh_uuids_nonvacuous :
  container_nofresh ex_c /\ Forall op_nofresh ex_ops /\ Forall op_ok ex_ops /\ run ex_ops (init ex_c) = Ok ex_st2
  /\ ctr (st_d ex_st2) = 3%nat
  /\ In (KGroup, ([99%N], Some (Fresh 1))) (occs (st_c ex_st2))
  /\ In (KGroup, ([100%N], Some (Fresh 2))) (occs (st_c ex_st2))
  /\ In (KGroup, (nB, U2)) (occs (st_c ex_st2))
  /\ length (fst (run_trace ex_ops (init ex_c) 0)) = 3%nat.
Proof. exact fresh_uuids_nonvacuous. Qed.
Print Assumptions C06_fresh_uuids_nonvacuous.

(* ---- 7. sheet level: explicit uuids written in flow sheets (column obj_id) ---- *)
(* Objects: Uuid/Sheet.v — a flow sheet after templating/loops as a list of rows, an insert_as_block
   row being the rows of the instantiated template ([IBlock]); [sheet_parse_all] mirrors
   ContentIndexParser.parse_all (every flow sheet parsed by a FlowParser against the ONE new
   container, then flows, campaigns, triggers added), [sheet_step]/[sheet_run]/[sheet_trace]
   histories on one long-lived container in which [SParse] is FlowParser(container, ...).parse().
   What FlowParser does with the obj_id of each row type (records it into its container / puts it on
   the object it creates) and which container the nested FlowParser of insert_as_block is given are
   probed from the source tree on every run (uuid_row_hooks, uuid_block_shared).
   [row_in it b ty n u]: the row (type ty, group/flow name n, obj_id u) occurs in item it, b = it
   sits inside an inserted template.  [ref_kind ty]: the kind of reference rows of type ty create.
   [sheet_honoured ty b]: (ty records its obj_id and (b = false or templates share the container))
   or ty puts the obj_id on the Group/FlowReference it creates. *)
Theorem C06_sheet_tables_ok : sheet_tables_ok = true.
Proof. exact sheet_tables_ok_true. Qed.
Print Assumptions C06_sheet_tables_ok.

(* the obj_id of a row written in a flow sheet itself (any row type that creates a reference:
   add_to_group, remove_from_group, split_by_group, start_new_flow; in begin_block / begin_for / a
   data-row template alike) is the uuid of its name at every occurrence of the validated container *)
Theorem C06_sheet_toplevel_wins : forall wb st st' fs ty n u cs k,
  sheet_parse_all wb = Ok st -> validate st = Ok st' ->
  In fs (wb_flows wb) -> In (IRow ty n u cs) (fs_items fs) -> truthy u = true -> ref_kind ty = Some k ->
  dget (sel k (st_d st')) n = Some u /\ forall u', In (k, (n, u')) (occs (st_c st')) -> u' = u.
Proof. exact sheet_toplevel_wins. Qed.
Print Assumptions C06_sheet_toplevel_wins.

(* the obj_id of a group-action row (add_to_group / remove_from_group) wins wherever the row sits,
   inserted templates of any depth included.  Side condition: no two create_flow rows produce the
   same flow name (a later flow of the same name replaces the earlier flow object) *)
Theorem C06_sheet_group_action_wins : forall wb st st' fs it b ty n u,
  sheet_parse_all wb = Ok st -> validate st = Ok st' ->
  In fs (wb_flows wb) -> In it (fs_items fs) -> row_in it b ty n u -> truthy u = true ->
  h_shape (hook_of uuid_row_hooks ty) = 1%N -> NoDup (map fs_name (wb_flows wb)) ->
  dget (gd (st_d st')) n = Some u /\ forall u', In (KGroup, (n, u')) (occs (st_c st')) -> u' = u.
Proof. exact sheet_group_action_wins. Qed.
Print Assumptions C06_sheet_group_action_wins.

Theorem C06_sheet_group_action_rows :
  h_shape (hook_of uuid_row_hooks s_add_to_group) = 1%N /\ h_shape (hook_of uuid_row_hooks s_remove_from_group) = 1%N
  /\ h_shape (hook_of uuid_row_hooks s_start_new_flow) = 2%N /\ h_shape (hook_of uuid_row_hooks s_split_by_group) = 3%N.
Proof. exact group_action_rows. Qed.
Print Assumptions C06_sheet_group_action_rows.

(* the general form: every honoured row *)
Theorem C06_sheet_explicit_wins : forall wb st st' fs it b ty n u k,
  sheet_parse_all wb = Ok st -> validate st = Ok st' ->
  In fs (wb_flows wb) -> In it (fs_items fs) -> row_in it b ty n u -> truthy u = true ->
  ref_kind ty = Some k -> sheet_honoured ty b = true -> NoDup (map fs_name (wb_flows wb)) ->
  dget (sel k (st_d st')) n = Some u /\ forall u', In (k, (n, u')) (occs (st_c st')) -> u' = u.
Proof. exact sheet_explicit_wins. Qed.
Print Assumptions C06_sheet_explicit_wins.

Example C06_sheet_explicit_wins_nonvacuous : exists st st',
  sheet_parse_all ex_sheet_wb = Ok st /\ validate st = Ok st'
  /\ NoDup (map fs_name (wb_flows ex_sheet_wb))
  /\ row_in (IBlock [IRow s_send_message [] None []; IBlock [IRow s_remove_from_group [104]%N uB []]]) true s_remove_from_group [104]%N uB
  /\ sheet_honoured s_remove_from_group true = true /\ ref_kind s_remove_from_group = Some KGroup
  /\ ref_kind s_split_by_group = Some KGroup /\ ref_kind s_start_new_flow = Some KFlow
  /\ dget (gd (st_d st')) [104]%N = Some uB /\ dget (gd (st_d st')) nG = Some uA /\ dget (fd (st_d st')) [120]%N = Some uB
  /\ length (occs (st_c st')) = 14%nat.
Proof. exact sheet_explicit_wins_nonvacuous. Qed.
Print Assumptions C06_sheet_explicit_wins_nonvacuous.

(* two honoured rows giving one name different uuids: the workbook does not compile + validate *)
Theorem C06_sheet_conflict_rejected : forall wb fs1 it1 b1 ty1 fs2 it2 b2 ty2 n u1 u2 k,
  In fs1 (wb_flows wb) -> In it1 (fs_items fs1) -> row_in it1 b1 ty1 n u1 -> truthy u1 = true ->
  ref_kind ty1 = Some k -> sheet_honoured ty1 b1 = true ->
  In fs2 (wb_flows wb) -> In it2 (fs_items fs2) -> row_in it2 b2 ty2 n u2 -> truthy u2 = true ->
  ref_kind ty2 = Some k -> sheet_honoured ty2 b2 = true ->
  NoDup (map fs_name (wb_flows wb)) -> u1 <> u2 ->
  exists e, bind (sheet_parse_all wb) validate = Err e.
Proof. exact sheet_conflict_rejected. Qed.
Print Assumptions C06_sheet_conflict_rejected.

Example C06_sheet_conflict_rejected_nonvacuous :
  sheet_honoured s_split_by_group false = true /\ sheet_honoured s_add_to_group true = true
  /\ NoDup (map fs_name (wb_flows ex_sheet_conflict_wb)) /\ uA <> uB
  /\ bind (sheet_parse_all ex_sheet_conflict_wb) validate = Err EConflict.
Proof. exact sheet_conflict_rejected_nonvacuous. Qed.
Print Assumptions C06_sheet_conflict_rejected_nonvacuous.

(* FULL statement of the property for sheets: "the obj_id of EVERY reference row wins, wherever the
   row sits".  For the rows left over by the theorems above — split_by_group / start_new_flow rows
   inside an inserted template — it is decided by the probed flag: with a shared container it is
   proved; with the throw-away container of get_node_group it is REFUTED by the witness
   [sheet_block_witness] (flow f inserts a template whose split_by_group row gives group g the
   obj_id U1: validate succeeds, g is bound to an invented uuid and U1 occurs nowhere; a second
   flow giving g the obj_id U2 in its own sheet compiles and renders U2) — finding
   block-objid-lost:* of findings.d/C06.json, replayed on the real code by the harness *)
Theorem C06_sheet_block_rows_decided :
  if uuid_block_shared
  then forall wb st st' fs it b ty n u k,
         sheet_parse_all wb = Ok st -> validate st = Ok st' ->
         In fs (wb_flows wb) -> In it (fs_items fs) -> row_in it b ty n u -> truthy u = true -> ref_kind ty = Some k ->
         dget (sel k (st_d st')) n = Some u /\ forall u', In (k, (n, u')) (occs (st_c st')) -> u' = u
  else sheet_block_witness = true.
Proof. exact sheet_block_rows_decided. Qed.
Print Assumptions C06_sheet_block_rows_decided.

(* histories on ONE long-lived container: a flow sheet parsed into it by FlowParser(...).parse();
   an honoured obj_id is the uuid of its name at every later validate/render of that container,
   whatever is recorded, added, parsed or rendered in between *)
Theorem C06_sheet_history_wins : forall st fs st1 ops st2 st3 it b ty n u k,
  hist_inv st -> sheet_step st (SParse fs) = Ok st1 ->
  In it (fs_items fs) -> row_in it b ty n u -> truthy u = true -> ref_kind ty = Some k -> sheet_honoured ty b = true ->
  Forall sop_ok ops -> sheet_run ops st1 = Ok st2 -> validate st2 = Ok st3 ->
  dget (sel k (st_d st3)) n = Some u /\ forall u', In (k, (n, u')) (occs (st_c st3)) -> u' = u.
Proof. exact sheet_history_wins. Qed.
Print Assumptions C06_sheet_history_wins.

Example C06_sheet_history_wins_nonvacuous : exists st1 st2 st3,
  hist_inv (init empty_container)
  /\ sheet_step (init empty_container) (SParse {| fs_name := nF; fs_items := [IRow s_start_new_flow [120]%N uB []] |}) = Ok st1
  /\ Forall sop_ok [SOp ORender; SOp (ORecordGroup nG uA); SParse {| fs_name := nF2; fs_items := [IRow s_start_new_flow [120]%N None []] |}]
  /\ sheet_run [SOp ORender; SOp (ORecordGroup nG uA); SParse {| fs_name := nF2; fs_items := [IRow s_start_new_flow [120]%N None []] |}] st1 = Ok st2
  /\ validate st2 = Ok st3 /\ dget (fd (st_d st3)) [120]%N = Some uB /\ length (occs (st_c st3)) = 5%nat.
Proof. exact sheet_history_wins_nonvacuous. Qed.
Print Assumptions C06_sheet_history_wins_nonvacuous.

(* a has_group condition may hang off a row of ANY type (wait_for_response, split_by_value, an action
   row, a no_op decision — [test_in it c]: some row of the item, at any depth of inserted templates,
   has an outgoing edge with a group test naming c): the flow that FlowParser returns has that test
   among the references the container's record and assign hooks visit, so every theorem above about
   [occs] (one uuid per name, listed at top level, explicit wins, conflicts rejected) speaks about it.
   Rests on C06_tables_ok (the hooks do not look at the operand of the router) and on
   C06_sheet_tables_ok (the test such an edge creates is of a type the hooks visit). *)
Theorem C06_sheet_edge_tests_are_refs : forall ud fs ud' f it c,
  parse_flow uuid_row_hooks uuid_block_shared ud fs = Ok (ud', f) -> In it (fs_items fs) -> test_in it c ->
  In (KGroup, (c, None)) (flow_refs uuid_action_record uuid_case_record f).
Proof. exact sheet_edge_tests_are_refs. Qed.
Print Assumptions C06_sheet_edge_tests_are_refs.

Example C06_sheet_edge_tests_nonvacuous : exists st st',
  sheet_parse_all ex_sheet_edge_wb = Ok st /\ validate st = Ok st'
  /\ length (filter (fun o => match fst o with KGroup => true | KFlow => false end) (occs (st_c st'))) = 7%nat
  /\ forallb (fun o => match fst o with KGroup => pyuuid_eqb (snd (snd o)) uA | KFlow => true end) (occs (st_c st')) = true.
Proof. exact sheet_edge_tests_nonvacuous. Qed.
Print Assumptions C06_sheet_edge_tests_nonvacuous.

(* history independence of the long-lived ContentIndexParser in the model: what parse_all returns,
   and every render after it, does not depend on what was parsed or rendered before it (the trace
   the correspondence compares with ONE ContentIndexParser run through P R R P R) *)
Theorem C06_sheet_parse_all_history_independent : forall wb ops st1 st2 i,
  sheet_trace (SParseAll wb :: ops) st1 i = sheet_trace (SParseAll wb :: ops) st2 i.
Proof. exact sheet_parse_all_history_independent. Qed.
Print Assumptions C06_sheet_parse_all_history_independent.
