(* C16 — a template that names an unknown variable is an error, never silently blank.
   Only property theorems here, each closed by [exact] and followed by Print Assumptions.
   (Non-vacuity examples: Tmpl/TmplFacts.v, *_nonvacuous.) *)
From Coq Require Import List NArith ZArith Bool.
From RPFT Require Import Base.Sexp Base.PyStr Base.Result Gen.Tables Cell.Cell Cell.CellFacts
  Tmpl.MiniJinja Tmpl.RowLoop Tmpl.TmplFacts Tmpl.Insert Tmpl.InsertFacts Tmpl.CellHistory Tmpl.CellHistoryFacts.
Import ListNotations.

(* 1a. expressions: reaching an operation that forces the Undefined object of a missing name
   is an error under the Strict policy (yields/eforced follow the evaluation order of eval:
   short-circuit and/or, left-to-right operands) *)
Theorem C16_forced_expression_is_error : forall c e x,
  eforced c e x -> lookup c x = None -> reserved_var x = false -> hard_err (eval Strict c e).
Proof. exact eforced_is_error. Qed.
Print Assumptions C16_forced_expression_is_error.

(* 1b. text templates ({{ }}, {% if %}, {% for %}): un-taken branches and zero-iteration bodies
   are not part of lforced.  [rf] = "repr() of an Undefined object fails": with it, printing a
   list / tuple / dict literal that holds the Undefined object (at any depth) is a forcing position
   of lforced too (rule N_out_holds); the statement holds for both values *)
Theorem C16_undefined_is_error : forall rf t c x,
  lforced rf c t x -> lookup c x = None -> reserved_var x = false -> hard_err (render rf Strict t c).
Proof. exact undefined_is_error. Qed.
Print Assumptions C16_undefined_is_error.

Theorem C16_undefined_var_exact : forall rf pre post c x,
  lookup c x = None -> reserved_var x = false -> text_ok pre = true ->
  render rf Strict (NText pre :: NOut (EVar x) :: post) c = Err EUndefined.
Proof. exact undefined_var_exact. Qed.
Print Assumptions C16_undefined_var_exact.

(* 1c. native templates {@ @}: a forced mention fails in the engine; an unforced one is refused
   by parse_as_string when it looks through the result (nc), and otherwise comes back as an
   Undefined object and EVERY field conversion of RowParser then fails *)
Theorem C16_native_undefined_is_error : forall nc e c x,
  lookup c x = None -> reserved_var x = false ->
  (eforced c e x -> hard_err (eval_native nc Strict e c))
  /\ (yields c e x ->
        if nc then eval_native nc Strict e c = Err EUndefined
        else eval_native nc Strict e c = Ok VUndef
             /\ to_text Strict (PObj VUndef) = Err EUndefined
             /\ to_include Strict (PObj VUndef) = Err EUndefined
             /\ to_entries Strict (PObj VUndef) = Err EUndefined).
Proof. exact native_undefined_is_error. Qed.
Print Assumptions C16_native_undefined_is_error.

(* 1d. a missing field of a defined object *)
Theorem C16_missing_field_is_error : forall rf c a f d,
  eval Strict c a = Ok (VDict d) -> lookup d f = None -> reserved_attr f = false ->
  render rf Strict [NOut (EAttr a f)] c = Err EUndefined.
Proof. exact missing_field_is_error. Qed.
Print Assumptions C16_missing_field_is_error.

(* 1e. list / tuple / dict literals, nested to any depth: the value of an expression that carries
   the reference evaluates to a container that HOLDS the Undefined object ... *)
Theorem C16_carried_undefined_is_held : forall c e x,
  carries c e x -> lookup c x = None -> reserved_var x = false ->
  exists v, eval Strict c e = Ok v /\ has_undef v = true.
Proof. exact carries_holds. Qed.
Print Assumptions C16_carried_undefined_is_held.

(* ... printing: what a tree whose repr() does not fail shows (s), a tree whose repr() fails shows
   too, unless an Undefined object is inside at some depth - then it is an UndefinedError ... *)
Theorem C16_repr_strict : forall v s,
  repr false v = Ok s -> repr true v = if has_undef v then Err EUndefined else Ok s.
Proof. exact repr_strict_of_lenient. Qed.
Print Assumptions C16_repr_strict.

(* ... so nothing that {{ }} prints (and nothing RowParser's str() prints) holds an Undefined object,
   for EVERY value ... *)
Theorem C16_printed_holds_no_undefined : forall v s, to_str true Strict v = Ok s -> has_undef v = false.
Proof. exact to_str_strict_no_leak. Qed.
Print Assumptions C16_printed_holds_no_undefined.

(* ... and no {@ @} result is or holds one, for every expression, context and policy *)
Theorem C16_native_result_holds_no_undefined : forall p e c v,
  eval_native true p e c = Ok v -> has_undef v = false.
Proof. exact native_no_leak. Qed.
Print Assumptions C16_native_result_holds_no_undefined.

(* 1f. row level, for the code of this run: when parse_as_string looks through native results
   (probed constant), the list a begin_for row iterates over - whatever cell produced it - has no
   element that is or holds an Undefined object: no loop variable is ever bound to one *)
Theorem C16_loop_entries_hold_no_undefined : native_result_checked = true ->
  forall pe pn octx r log log' inc es,
  inst_row pe pn octx r log = (log', Ok (inc, MEntries es)) -> Forall (fun v => has_undef v = false) es.
Proof. exact loop_entries_no_undefined. Qed.
Print Assumptions C16_loop_entries_hold_no_undefined.

(* 2. defined references are replaced by exactly their value, in place, under either policy *)
Theorem C16_defined_exact : forall rf p c x v s pre post rest,
  lookup c x = Some v -> reserved_var x = false -> to_str rf p v = Ok s ->
  render rf p pre c = Ok rest ->
  render rf p (pre ++ NOut (EVar x) :: post) c
  = match render rf p post c with Err e => Err e | Ok t => Ok (rest ++ s ++ t) end.
Proof. exact defined_exact_in_place. Qed.
Print Assumptions C16_defined_exact.

Theorem C16_defined_escape_exact : forall rf p c x s,
  lookup c x = Some (VStr s) -> reserved_var x = false ->
  render rf p [NOutEsc (EVar x)] c = Ok (escape s ++ []).
Proof. exact defined_escape_exact. Qed.
Print Assumptions C16_defined_escape_exact.

(* 3. rows read with omit_content (everything under a false include_if head): nothing is handed
   to the template engine, nothing is produced, the context is untouched; for every sheet *)
Theorem C16_skipped_not_evaluated : forall pe pn sc em tl rows fuel bt pos cx log log' r,
  parse_block pe pn sc em tl rows fuel bt true pos cx log = (log', r) ->
  (exists ev, log' = log ++ ev /\ Forall untemplated_row ev)
  /\ (forall p cx', r = Ok (p, cx') -> cx' = cx).
Proof. exact skipped_not_evaluated. Qed.
Print Assumptions C16_skipped_not_evaluated.

(* 3b. a single ROW whose include_if evaluates to "false": its other cell is never handed to the
   template engine (so an unknown variable in it is not an error) and the row is excluded *)
Theorem C16_excluded_row_not_evaluated : forall pe pn cx r log pi s,
  parse_as_string_m pe pn (Some cx) (r_inc r) = Ok pi ->
  to_text pn pi = Ok s ->
  str_eqb (lower (strip s)) [102; 97; 108; 115; 101]%N = true ->
  exists mv, inst_row_incl pe pn (Some cx) r log = (log_render (Some cx) (r_inc r) log, Ok (false, mv)).
Proof. exact excluded_row_not_evaluated. Qed.
Print Assumptions C16_excluded_row_not_evaluated.

Theorem C16_skipped_policy_independent : forall pe pn pe' pn' sc em tl rows fuel bt pos cx log,
  fst (parse_block pe pn sc em tl rows fuel bt true pos cx log) = fst (parse_block pe' pn' sc em tl rows fuel bt true pos cx log)
  /\ snd (parse_block pe pn sc em tl rows fuel bt true pos cx log) = snd (parse_block pe' pn' sc em tl rows fuel bt true pos cx log).
Proof. exact skipped_policy_independent. Qed.
Print Assumptions C16_skipped_policy_independent.

(* 5. under the lenient policy the reference is silently replaced by nothing *)
Theorem C16_lenient_blank_refuted : forall rf x, reserved_var x = false ->
  render rf Lenient [NOut (EVar x)] [] = Ok [].
Proof. exact lenient_blank. Qed.
Print Assumptions C16_lenient_blank_refuted.

(* 6. STRICT EVERYWHERE, decided for the code of this run by the probed constants env_repr_fails
   (repr() of the text environment's Undefined objects fails) and native_result_checked
   (parse_as_string looks through a {@ @} result).  With both - the repaired tree - for every
   template of the mini-language and every context:
   (1) every forcing position of a name the context does not define is an error, INCLUDING printing a
       list / tuple / dict literal that holds it at any depth (lforced true: rules N_out_holds + carries);
   (2) a native template that forces it, or whose result is or holds it, is an error;
   (3) whatever {{ }} prints holds no Undefined object; (4) whatever {@ @} hands back holds none.
   Without one of them - jinja2.StrictUndefined alone - the witness of the finding
   undefined-inside-list-literal: {{ [x] }} renders "[Undefined]" / {@ [x] @} is [Undefined]. *)
Theorem C16_strict_everywhere :
  if env_repr_fails && native_result_checked
  then (forall t c x, lforced true c t x -> lookup c x = None -> reserved_var x = false ->
                      hard_err (render env_repr_fails Strict t c))
       /\ (forall e c x, eforced c e x \/ carries c e x -> lookup c x = None -> reserved_var x = false ->
                         hard_err (eval_native native_result_checked Strict e c))
       /\ (forall v s, to_str env_repr_fails Strict v = Ok s -> has_undef v = false)
       /\ (forall p e c v, eval_native native_result_checked p e c = Ok v -> has_undef v = false)
  else forall x, reserved_var x = false ->
       (env_repr_fails = false
        /\ render env_repr_fails Strict [NOut (EList [EVar x])] [] = Ok [91; 85; 110; 100; 101; 102; 105; 110; 101; 100; 93]%N)
       \/ (native_result_checked = false
           /\ eval_native native_result_checked Strict (EList [EVar x]) [] = Ok (VList [VUndef])).
Proof. exact strict_everywhere_decided. Qed.
Print Assumptions C16_strict_everywhere.

(* 4. what the code configures TODAY (regenerated Tables.v: class of `undefined` and the
   behavioural probes).  Kept last: it does not compile while an environment is lenient, and
   everything above must still be checked then. *)
From RPFT Require Import Tmpl.EnvFacts.
Theorem C16_env_is_strict : env_undefined_policy = Strict /\ native_undefined_policy = Strict.
Proof. exact env_is_strict. Qed.
Print Assumptions C16_env_is_strict.

Theorem C16_env_behaves_strict : probes_all_error = true.
Proof. exact env_behaves_strict. Qed.
Print Assumptions C16_env_behaves_strict.

(* 6. Strengthening after wave 3 — the ROAD by which a sheet is instantiated does not matter.
   6a. sheets inserted into sheets (insert_as_block -> get_node_group -> a new FlowParser -> parse_as_block): whatever stops
   the inserted sheet — an unknown name in one of its evaluated cells included — stops the inserting sheet with the same
   error, and nothing is produced after it.  The inserted sheet is arbitrary, so this holds at every depth of nesting. *)
Theorem C16_inserted_error_is_flow_error : forall pe pn f bk inc name arg rest cx log a t bcx log1 e,
  inst_insert pe pn cx inc arg = Ok (Some a) ->
  find_template bk name = Some t ->
  block_context t a = Ok bcx ->
  run_bsheet pe pn f bk (t_sheet t) bcx log = (log1, Err e) ->
  run_bsheet pe pn (S f) bk (SInsert inc name arg :: rest) cx log = (log1, Err e).
Proof. exact inserted_error_is_flow_error. Qed.
Print Assumptions C16_inserted_error_is_flow_error.

(* 6b. ... and in an ordinary segment of rows: the first row that cannot be instantiated stops the sheet at once *)
Theorem C16_row_error_is_flow_error : forall pe pn f bk rows rest r cx log log2 e,
  nth_error rows 0 = Some r ->
  inst_row_incl pe pn (Some cx) r (log ++ [EvRow 0 true]) = (log2, Err e) ->
  run_bsheet pe pn (S f) bk (SRows rows :: rest) cx log = (log2, Err e).
Proof.
  exact (fun pe pn f bk rows rest r cx log log2 e Hn Hi =>
           rows_error_is_flow_error pe pn f bk rows rest cx log log2 e (first_row_error_stops pe pn rows r cx log log2 e Hn Hi)).
Qed.
Print Assumptions C16_row_error_is_flow_error.

(* 6c. an inserted sheet sees its declared argument and nothing of the inserting flow: two flows that hand over the same
   argument get the same outcome from the block, whatever else they define (so a variable of the inserting flow used
   inside the block is unknown there — one of the ways a name can be missing) *)
Theorem C16_block_sees_only_its_argument : forall pe pn f bk inc name arg rest cx cx' log a,
  inst_insert pe pn cx inc arg = Ok (Some a) ->
  inst_insert pe pn cx' inc arg = Ok (Some a) ->
  forall t bcx, find_template bk name = Some t -> block_context t a = Ok bcx ->
  forall log1 e, run_bsheet pe pn f bk (t_sheet t) bcx log = (log1, Err e) ->
  run_bsheet pe pn (S f) bk (SInsert inc name arg :: rest) cx log
  = run_bsheet pe pn (S f) bk (SInsert inc name arg :: rest) cx' log.
Proof. exact block_sees_only_its_argument. Qed.
Print Assumptions C16_block_sees_only_its_argument.

(* 6d. an insert row under a false include_if: its argument cell is not evaluated, the template not instantiated *)
Theorem C16_excluded_insert_not_evaluated : forall pe pn f bk inc name arg rest cx log pi s,
  parse_as_string_m pe pn (Some cx) inc = Ok pi -> to_text pn pi = Ok s ->
  str_eqb (lower (strip s)) s_false = true ->
  run_bsheet pe pn (S f) bk (SInsert inc name arg :: rest) cx log = run_bsheet pe pn f bk rest cx log.
Proof.
  exact (fun pe pn f bk inc name arg rest cx log pi s Hp Ht Hs =>
           excluded_insert_not_evaluated pe pn f bk inc name arg rest cx log (insert_excluded_by_false pe pn cx inc arg pi s Hp Ht Hs)).
Qed.
Print Assumptions C16_excluded_insert_not_evaluated.

Example C16_inserted_sheets_nonvacuous : insert_example.
Proof. exact insert_example_holds. Qed.
Print Assumptions C16_inserted_sheets_nonvacuous.

(* 7. histories on one CellParser: the model's step function hands the parser state back unchanged (no memo of rendered
   cells, no list of collected errors, no set of errors already reported), so a sequence of cells run through it yields,
   cell by cell, the value of the pure function: an unknown name is reported EVERY time it is met — after failing calls,
   after the same cell, after a call in which the name was defined. *)
Theorem C16_cells_history_free : forall st cs, cp_run st cs = (st, map (cp_do st) cs).
Proof. exact cp_run_is_map. Qed.
Print Assumptions C16_cells_history_free.

Theorem C16_error_reported_every_time : forall st h c t e,
  cp_do st c = Err e ->
  nth_error (snd (cp_run st (h ++ c :: t))) (length h) = Some (Err e).
Proof. exact cp_error_every_time. Qed.
Print Assumptions C16_error_reported_every_time.

Example C16_cell_history_nonvacuous : cell_history_example.
Proof. exact cell_history_example_holds. Qed.
Print Assumptions C16_cell_history_nonvacuous.

(* 8. the last sentence of C16 ("rows skipped through a false include_if are not evaluated at all") is FALSE of the faithful
   model for an inclusion cell that yields a falsy object other than False: the row is excluded and evaluated all the same
   (finding falsy-include_if-row-evaluated; candidate patch in design.d/FIX_falsy-include_if.md).  C16_excluded_row_not_evaluated
   is the part that holds: the STRING "false". *)
Theorem C16_falsy_include_if_row_is_evaluated_refuted : falsy_include_if_witness.
Proof. exact falsy_include_if_witness_holds. Qed.
Print Assumptions C16_falsy_include_if_row_is_evaluated_refuted.
