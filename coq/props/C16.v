(* C16 — a template that names an unknown variable is an error, never silently blank.
   Only property theorems here, each closed by [exact] and followed by Print Assumptions. *)
From Coq Require Import List NArith ZArith Bool.
From RPFT Require Import Base.Sexp Base.PyStr Base.Result Gen.Tables Cell.Cell Tmpl.MiniJinja Tmpl.RowLoop Tmpl.TmplFacts.
Import ListNotations.

(* 5. under the lenient policy the reference is silently replaced by nothing *)
Theorem C16_lenient_blank_refuted : forall x, reserved_var x = false ->
  render Lenient [NOut (EVar x)] [] = Ok [].
Proof. exact lenient_blank. Qed.
Print Assumptions C16_lenient_blank_refuted.

(* 4. what the code configures TODAY (regenerated Tables.v).  Kept last: it does not compile
   while an environment is lenient, and everything above must still be checked then. *)
From RPFT Require Import Tmpl.EnvFacts.
Theorem C16_env_is_strict : env_undefined_policy = Strict /\ native_undefined_policy = Strict.
Proof. exact env_is_strict. Qed.
Print Assumptions C16_env_is_strict.

Theorem C16_env_behaves_strict : probes_all_error = true.
Proof. exact env_behaves_strict. Qed.
Print Assumptions C16_env_behaves_strict.
