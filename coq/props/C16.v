(* C16 — a template that names an unknown variable is an error, never silently blank.
   Only property theorems here, each closed by [exact] and followed by Print Assumptions.
   (Non-vacuity examples: Tmpl/TmplFacts.v, *_nonvacuous.) *)
From Coq Require Import List NArith ZArith Bool.
From RPFT Require Import Base.Sexp Base.PyStr Base.Result Gen.Tables Cell.Cell Cell.CellFacts
  Tmpl.MiniJinja Tmpl.RowLoop Tmpl.TmplFacts.
Import ListNotations.

(* 1a. expressions: reaching an operation that forces the Undefined object of a missing name
   is an error under the Strict policy (yields/eforced follow the evaluation order of eval:
   short-circuit and/or, left-to-right operands) *)
Theorem C16_forced_expression_is_error : forall c e x,
  eforced c e x -> lookup c x = None -> reserved_var x = false -> hard_err (eval Strict c e).
Proof. exact eforced_is_error. Qed.
Print Assumptions C16_forced_expression_is_error.

(* 1b. text templates ({{ }}, {% if %}, {% for %}): un-taken branches and zero-iteration bodies
   are not part of lforced *)
Theorem C16_undefined_is_error : forall t c x,
  lforced c t x -> lookup c x = None -> reserved_var x = false -> hard_err (render Strict t c).
Proof. exact undefined_is_error. Qed.
Print Assumptions C16_undefined_is_error.

Theorem C16_undefined_var_exact : forall pre post c x,
  lookup c x = None -> reserved_var x = false -> text_ok pre = true ->
  render Strict (NText pre :: NOut (EVar x) :: post) c = Err EUndefined.
Proof. exact undefined_var_exact. Qed.
Print Assumptions C16_undefined_var_exact.

(* 1c. native templates {@ @}: a forced mention fails in the engine; an unforced one comes
   back as an Undefined object and EVERY field conversion of RowParser then fails *)
Theorem C16_native_undefined_is_error : forall e c x,
  lookup c x = None -> reserved_var x = false ->
  (eforced c e x -> hard_err (eval_native Strict e c))
  /\ (yields c e x ->
        eval_native Strict e c = Ok VUndef
        /\ to_text Strict (PObj VUndef) = Err EUndefined
        /\ to_include Strict (PObj VUndef) = Err EUndefined
        /\ to_entries Strict (PObj VUndef) = Err EUndefined).
Proof. exact native_undefined_is_error. Qed.
Print Assumptions C16_native_undefined_is_error.

(* 1d. a missing field of a defined object *)
Theorem C16_missing_field_is_error : forall c a f d,
  eval Strict c a = Ok (VDict d) -> lookup d f = None -> reserved_attr f = false ->
  render Strict [NOut (EAttr a f)] c = Err EUndefined.
Proof. exact missing_field_is_error. Qed.
Print Assumptions C16_missing_field_is_error.

(* 2. defined references are replaced by exactly their value, in place, under either policy *)
Theorem C16_defined_exact : forall p c x v s pre post rest,
  lookup c x = Some v -> reserved_var x = false -> to_str p v = Ok s ->
  render p pre c = Ok rest ->
  render p (pre ++ NOut (EVar x) :: post) c
  = match render p post c with Err e => Err e | Ok t => Ok (rest ++ s ++ t) end.
Proof. exact defined_exact_in_place. Qed.
Print Assumptions C16_defined_exact.

Theorem C16_defined_escape_exact : forall p c x s,
  lookup c x = Some (VStr s) -> reserved_var x = false ->
  render p [NOutEsc (EVar x)] c = Ok (escape s ++ []).
Proof. exact defined_escape_exact. Qed.
Print Assumptions C16_defined_escape_exact.

(* 3. rows read with omit_content (everything under a false include_if head): nothing is handed
   to the template engine, nothing is produced, the context is untouched; for every sheet *)
Theorem C16_skipped_not_evaluated : forall pe pn sc em tl rows fuel bt pos cx log log' r,
  parse_block pe pn sc em tl rows fuel bt true pos cx log = (log', r) ->
  (exists ev, log' = log ++ ev /\ Forall untemplated_row ev)
  /\ (forall p cx', r = Ok (p, cx') -> cx' = cx).
Proof. exact skipped_not_evaluated. Qed.
Print Assumptions C16_skipped_not_evaluated.

(* 3b. a single ROW whose include_if evaluates to "false": its other cell is never handed to the
   template engine (so an unknown variable in it is not an error) and the row is excluded *)
Theorem C16_excluded_row_not_evaluated : forall pe pn cx r log pi s,
  parse_as_string_m pe pn (Some cx) (r_inc r) = Ok pi ->
  to_text pn pi = Ok s ->
  str_eqb (lower (strip s)) [102; 97; 108; 115; 101]%N = true ->
  exists mv, inst_row_incl pe pn (Some cx) r log = (log_render (Some cx) (r_inc r) log, Ok (false, mv)).
Proof. exact excluded_row_not_evaluated. Qed.
Print Assumptions C16_excluded_row_not_evaluated.

Theorem C16_skipped_policy_independent : forall pe pn pe' pn' sc em tl rows fuel bt pos cx log,
  fst (parse_block pe pn sc em tl rows fuel bt true pos cx log) = fst (parse_block pe' pn' sc em tl rows fuel bt true pos cx log)
  /\ snd (parse_block pe pn sc em tl rows fuel bt true pos cx log) = snd (parse_block pe' pn' sc em tl rows fuel bt true pos cx log).
Proof. exact skipped_policy_independent. Qed.
Print Assumptions C16_skipped_policy_independent.

(* 5. under the lenient policy the reference is silently replaced by nothing *)
Theorem C16_lenient_blank_refuted : forall x, reserved_var x = false ->
  render Lenient [NOut (EVar x)] [] = Ok [].
Proof. exact lenient_blank. Qed.
Print Assumptions C16_lenient_blank_refuted.

(* 6. residual: even Strict does not force an Undefined object stored in a list literal
   (known finding "undefined-inside-list-literal") *)
Theorem C16_strict_list_literal_refuted : forall x, reserved_var x = false ->
  render Strict [NOut (EList [EVar x])] [] = Ok [91; 85; 110; 100; 101; 102; 105; 110; 101; 100; 93]%N
  /\ eval_native Strict (EList [EVar x]) [] = Ok (VList [VUndef]).
Proof. exact strict_list_literal. Qed.
Print Assumptions C16_strict_list_literal_refuted.

(* 4. what the code configures TODAY (regenerated Tables.v: class of `undefined` and the
   behavioural probes).  Kept last: it does not compile while an environment is lenient, and
   everything above must still be checked then. *)
From RPFT Require Import Tmpl.EnvFacts.
Theorem C16_env_is_strict : env_undefined_policy = Strict /\ native_undefined_policy = Strict.
Proof. exact env_is_strict. Qed.
Print Assumptions C16_env_is_strict.

Theorem C16_env_behaves_strict : probes_all_error = true.
Proof. exact env_behaves_strict. Qed.
Print Assumptions C16_env_behaves_strict.
