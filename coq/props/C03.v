(* C03 — loops, blocks, include_if and inserted blocks are pure sugar.
   Equivalence "for all contact input sequences" between the flow of a sugared sheet and
   the flow of its desugared twin is discharged by theorem for every pair the checker
   accepts; the quantifier over sheets is discharged per generated twin pair.
   The loop mechanics themselves (models Comp/Blocks.v and Tmpl/RowLoop.v, run with the
   behaviour the probes of Gen/Tables.v find in the code) carry theorems for ALL sheets:
   loop variables are lexically scoped and a loop over nothing is a pass-through; and the
   UNROLLING THEOREM (C03_desugar_equiv, second half of this file): for every sheet of the
   block-mechanics model the parser reads successfully, the desugared sheet (Comp/Desugar.v:
   loops unrolled into blocks with lexically scoped variables, excluded rows and blocks gone,
   every cell a literal) is read successfully and hands FlowParser the same rows and the same
   NodeGroup pushes/registrations in the same order; failures correspond as well.
   What FlowParser does with those rows and groups (nodes, exits, edges) is compared on twins by
   the checker above (C03_bisim_check_sound). *)
From Coq Require Import List NArith Bool.
From RPFT Require Import Base.Sexp Base.SexpEq Base.Result Gen.Tables Flow.Lts Flow.Flow Flow.FlowFacts.
From RPFT Require Comp.Blocks Comp.BlocksFacts Comp.Desugar Comp.DesugarFacts Comp.DesugarWitness Cell.Cell Tmpl.MiniJinja Tmpl.RowLoop Tmpl.TmplFacts Tmpl.RowLoopFacts Base.ODict Base.PyStr Index.Args Tmpl.Insert Comp.InsertArgs Comp.InsertArgsFacts.
Import ListNotations.

Theorem C03_bisim_check_sound : forall f g,
  bisim_check f g = true -> forall t, traces f t <-> traces g t.
Proof. exact bisim_check_sound. Qed.
Print Assumptions C03_bisim_check_sound.

Theorem C03_sim_check_sound : forall lm f g,
  sim_check lm f g = true ->
  forall t, traces f t -> exists t', traces g t' /\ Forall2 (ematch sexp lm) t t'.
Proof. exact sim_check_sound. Qed.
Print Assumptions C03_sim_check_sound.

(* ---- loop mechanics, for every sheet, context, fuel, block type and undefined policy ---- *)

(* 1. lexical scope (the code after the repair of loop-variable-shadows-outer-variable: the
   bindings shadowed by the loop and index variables are put back after end_for): every call
   of _parse_block, hence every loop however nested, returns with EXACTLY the context it was
   entered with — whatever the variables are called, also `x;x`, also over zero elements *)
Theorem C03_loop_variables_lexically_scoped : forall pol emp tol rows fuel s bt omit s',
  Blocks.parse_block pol ScopeRestore emp tol rows fuel s bt omit = Blocks.ROk s' ->
  Blocks.p_ctx s' = Blocks.p_ctx s.
Proof. exact BlocksFacts.ctx_preserved. Qed.
Print Assumptions C03_loop_variables_lexically_scoped.

Example C03_loop_variables_lexically_scoped_nonvacuous :
  Blocks.parse_block Strict ScopeRestore EmptySkip true BlocksFacts.w_rows 50
    (Blocks.mkP 0 BlocksFacts.w_ctx []) Blocks.BRoot false
  = Blocks.ROk (Blocks.mkP 4 BlocksFacts.w_ctx
      [Blocks.EvRow [] [97; 102; 116; 101; 114; 32; 67; 88; 86; 65; 76]%N; Blocks.EvInst 3; Blocks.EvEnd [49]%N;
       Blocks.EvInst 2; Blocks.EvRow [] [49; 98]%N; Blocks.EvInst 1; Blocks.EvEnter Blocks.BFor false;
       Blocks.EvInst 2; Blocks.EvRow [] [48; 97]%N; Blocks.EvInst 1; Blocks.EvEnter Blocks.BFor false; Blocks.EvPush; Blocks.EvInst 0]).
Proof. exact BlocksFacts.ctx_preserved_nonvacuous. Qed.
Print Assumptions C03_loop_variables_lexically_scoped_nonvacuous.

(* the same on the templating model that C16's correspondence ties to FlowParser *)
Theorem C03_rowloop_variable_lexically_scoped : forall pe pn emp tol rows fuel bt omit pos cx log log' p cx',
  RowLoop.parse_block pe pn ScopeRestore emp tol rows fuel bt omit pos cx log = (log', Ok (p, cx')) -> cx' = cx.
Proof. exact RowLoopFacts.rowloop_ctx_preserved. Qed.
Print Assumptions C03_rowloop_variable_lexically_scoped.

(* the defect as it was recorded (dict.pop): kept as the witness that ScopeRestore is needed *)
Example C03_pop_policy_loses_binding_refuted :
  Blocks.parse_block Strict ScopePop EmptyFallThrough false BlocksFacts.w_rows 50
    (Blocks.mkP 0 BlocksFacts.w_ctx []) Blocks.BRoot false = Blocks.RErr Blocks.Undefined
  /\ exists lg, Blocks.parse_block Lenient ScopePop EmptyFallThrough false BlocksFacts.w_rows 50
                  (Blocks.mkP 0 BlocksFacts.w_ctx []) Blocks.BRoot false
                = Blocks.ROk (Blocks.mkP 4 [([107]%N, Blocks.VS [75]%N)]
                                (Blocks.EvRow [] [97; 102; 116; 101; 114; 32]%N :: lg)).
Proof. exact BlocksFacts.pop_loses_binding. Qed.
Print Assumptions C03_pop_policy_loses_binding_refuted.

(* 2. content read with omit_content (a false include_if head, the body of an empty loop) is
   inert: nothing instantiated, no row handed on, no group registered, context untouched *)
Theorem C03_omitted_content_is_inert : forall pol scope emp tol rows fuel s bt s',
  Blocks.parse_block pol scope emp tol rows fuel s bt true = Blocks.ROk s' ->
  Blocks.p_ctx s' = Blocks.p_ctx s
  /\ exists ev, Blocks.p_log s' = ev ++ Blocks.p_log s /\ Forall BlocksFacts.skip_event ev.
Proof. exact BlocksFacts.omit_is_inert. Qed.
Print Assumptions C03_omitted_content_is_inert.

(* 3. a loop over zero elements (the code after the repair of empty-loop) is a pass-through:
   its body is consumed with omit_content, an empty group is registered under the head's id
   (as for begin_block ... end_block with nothing inside), the enclosing block goes on *)
Theorem C03_empty_loop_pass_through : forall pol rows f s bt s1 row x rest,
  Blocks.next_row pol rows s false = Blocks.ROk (s1, Some row) ->
  Blocks.i_kind row = Blocks.KBeginFor -> Blocks.i_inc row = true -> Blocks.i_iter row = [] ->
  Blocks.i_vars row = x :: rest -> x <> [] ->
  Blocks.parse_block pol ScopeRestore EmptySkip true rows (S f) s bt false
  = match Blocks.parse_block pol ScopeRestore EmptySkip true rows f (Blocks.log (Blocks.log s1 Blocks.EvPush) (Blocks.EvEnter Blocks.BFor true)) Blocks.BFor true with
    | Blocks.ROk s2 => Blocks.parse_block pol ScopeRestore EmptySkip true rows f (Blocks.log s2 (Blocks.EvEnd (Blocks.i_id row))) bt false
    | Blocks.RErr e => Blocks.RErr e
    end.
Proof. exact BlocksFacts.empty_loop_pass_through. Qed.
Print Assumptions C03_empty_loop_pass_through.

Example C03_empty_loop_pass_through_nonvacuous :
  (exists s1 row, Blocks.next_row Strict BlocksFacts.e_rows (Blocks.mkP 1 BlocksFacts.e_ctx []) false = Blocks.ROk (s1, Some row)
                  /\ Blocks.i_kind row = Blocks.KBeginFor /\ Blocks.i_inc row = true /\ Blocks.i_iter row = []
                  /\ Blocks.i_vars row = [[120]%N])
  /\ Blocks.parse_block Strict ScopeRestore EmptySkip true BlocksFacts.e_rows 50 (Blocks.mkP 0 BlocksFacts.e_ctx []) Blocks.BRoot false
     = Blocks.ROk (Blocks.mkP 8 BlocksFacts.e_ctx
         [Blocks.EvRow [] [98; 121; 101]%N; Blocks.EvInst 7; Blocks.EvEnd [50]%N; Blocks.EvEnter Blocks.BBlock true;
          Blocks.EvEnter Blocks.BFor true; Blocks.EvPush; Blocks.EvInst 1; Blocks.EvRow [] [104; 105]%N; Blocks.EvInst 0])
  /\ Blocks.parse_block Strict ScopePop EmptyFallThrough false BlocksFacts.e_rows 50 (Blocks.mkP 0 BlocksFacts.e_ctx []) Blocks.BRoot false
     = Blocks.RErr Blocks.KeyErr.
Proof. exact BlocksFacts.empty_loop_pass_through_nonvacuous. Qed.
Print Assumptions C03_empty_loop_pass_through_nonvacuous.

(* on the templating model: the empty loop is, event for event, the same head under a false
   include_if (its body is never handed to the template engine: C16_skipped_not_evaluated) *)
Theorem C03_rowloop_empty_loop_skipped : forall pe pn rows f bt pos cx log r var log2,
  nth_error rows pos = Some r -> RowLoop.rk r = RowLoop.KBeginFor var -> var <> [] ->
  RowLoop.inst_row_incl pe pn (Some cx) r (log ++ [RowLoop.EvRow pos true]) = (log2, Ok (true, RowLoop.MEntries [])) ->
  RowLoop.parse_block pe pn ScopeRestore EmptySkip true rows (S f) bt false pos cx log
  = match RowLoop.parse_block pe pn ScopeRestore EmptySkip true rows f RowLoop.BFor true (S pos) cx log2 with
    | (log3, Err e) => (log3, Err e)
    | (log3, Ok (p, _)) => RowLoop.parse_block pe pn ScopeRestore EmptySkip true rows f bt false p cx log3
    end.
Proof. exact RowLoopFacts.rowloop_empty_loop_skipped. Qed.
Print Assumptions C03_rowloop_empty_loop_skipped.

(* non-vacuity of the two RowLoop statements (concrete sheets; the second component of each is
   what the code did before the repairs) *)
Example C03_rowloop_variable_lexically_scoped_nonvacuous :
  snd (RowLoop.parse_block Strict Strict ScopeRestore EmptySkip true RowLoopFacts.sh_rows 50 RowLoop.BRoot false 0 TmplFacts.ex_ctx [])
  = Ok (4%nat, TmplFacts.ex_ctx)
  /\ snd (RowLoop.parse_block Strict Strict ScopePop EmptyFallThrough false RowLoopFacts.sh_rows 50 RowLoop.BRoot false 0 TmplFacts.ex_ctx [])
     = Err MiniJinja.EUndefined.
Proof. exact RowLoopFacts.rowloop_scoped_witness. Qed.
Print Assumptions C03_rowloop_variable_lexically_scoped_nonvacuous.

Example C03_rowloop_empty_loop_skipped_nonvacuous :
  (exists log2, RowLoop.inst_row_incl Strict Strict (Some TmplFacts.ex_ctx)
                  (RowLoop.mk_srow (RowLoop.KBeginFor [120]%N) (TmplFacts.cT []) (MiniJinja.CNative (MiniJinja.EList [])))
                  ([RowLoop.EvRow 0 true; RowLoop.EvEmit [104; 105]%N] ++ [RowLoop.EvRow 1 true])
                = (log2, Ok (true, RowLoop.MEntries [])))
  /\ RowLoop.parse_block Strict Strict ScopeRestore EmptySkip true RowLoopFacts.em_rows 50 RowLoop.BRoot false 0 TmplFacts.ex_ctx []
     = ([RowLoop.EvRow 0 true; RowLoop.EvEmit [104; 105]%N; RowLoop.EvRow 1 true;
         RowLoop.EvRender [123; 64; 32; 91; 93; 32; 64; 125]%N;
         RowLoop.EvRow 2 false; RowLoop.EvRow 3 false; RowLoop.EvRow 4 true; RowLoop.EvEmit [116; 97; 105; 108]%N],
        Ok (5%nat, TmplFacts.ex_ctx))
  /\ snd (RowLoop.parse_block Strict Strict ScopePop EmptyFallThrough false RowLoopFacts.em_rows 50 RowLoop.BRoot false 0 TmplFacts.ex_ctx [])
     = Err MiniJinja.EKey.
Proof. exact RowLoopFacts.rowloop_empty_loop_skipped_nonvacuous. Qed.
Print Assumptions C03_rowloop_empty_loop_skipped_nonvacuous.

(* ================================================================================================
   THE UNROLLING THEOREM over the block-mechanics model (Comp/Blocks.v read by Comp/Desugar.v)
   ================================================================================================ *)

(* fuel is not part of the statement: more fuel never changes a result that was not OutOfFuel, and
   the fuel run_sheet gives is always enough *)
Theorem C03_fuel_monotone : forall pol scope emp tol rows f s bt o r,
  Blocks.parse_block pol scope emp tol rows f s bt o = r -> r <> Blocks.RErr Blocks.OutOfFuel ->
  forall f', f <= f' -> Blocks.parse_block pol scope emp tol rows f' s bt o = r.
Proof. exact DesugarFacts.parse_block_mono. Qed.
Print Assumptions C03_fuel_monotone.

Theorem C03_fuel_never_runs_out : forall pol rows c,
  Blocks.run_sheet pol rows c <> Blocks.RErr Blocks.OutOfFuel.
Proof. exact DesugarFacts.run_sheet_fuel_suffices. Qed.
Print Assumptions C03_fuel_never_runs_out.

(* the code as probed in this run has the two repairs (regenerated Gen/Tables.v; this fact is what
   ties the run_sheet statements below to the parameters ScopeRestore / EmptySkip / tolerant) *)
Theorem C03_code_has_repaired_loop_mechanics :
  loop_scope_policy = ScopeRestore /\ empty_loop_policy = EmptySkip /\ remove_tolerant = true.
Proof. exact DesugarFacts.policies_repaired. Qed.
Print Assumptions C03_code_has_repaired_loop_mechanics.

(* THE THEOREM (for all sheets, contexts and undefined-variable policies; any nesting depth, any
   number of rows and elements): if the sheet is read successfully then its desugaring is defined,
   is literal (no begin_for, no include_if, no {{reference}}), is read successfully from the EMPTY
   context, FlowParser receives the same rows, pushes and registers the same groups under the same
   ids in the same order (toks; as a forest: shape), that forest is well formed, and the context is
   back to what it was (loop variables are gone after end_for) *)
Theorem C03_desugar_equiv : forall pol rows c s,
  Blocks.run_sheet pol rows c = Blocks.ROk s ->
  exists rows' s',
    Desugar.desugar pol c rows = Blocks.ROk rows'
    /\ forallb Desugar.row_is_plain_literal rows' = true
    /\ Blocks.run_sheet pol rows' [] = Blocks.ROk s'
    /\ Desugar.toks (rev (Blocks.p_log s')) = Desugar.toks (rev (Blocks.p_log s))
    /\ Desugar.shape (rev (Blocks.p_log s')) = Desugar.shape (rev (Blocks.p_log s))
    /\ (exists its, Desugar.shape (rev (Blocks.p_log s)) = Some its)
    /\ Blocks.p_ctx s = c.
Proof. exact DesugarFacts.desugar_equiv. Qed.
Print Assumptions C03_desugar_equiv.

(* the same for ANY fuel and with the behaviours as explicit parameters: the sugared sheet read by
   the repaired mechanics (remove_from_context tolerant or not), the desugared sheet read under any
   loop mechanics whatever (it has no loop) with every fuel above its length *)
Theorem C03_desugar_equiv_any_fuel : forall pol tol scope' emp' tol' rows f c s,
  Blocks.parse_block pol ScopeRestore EmptySkip tol rows f (Blocks.mkP 0 c []) Blocks.BRoot false = Blocks.ROk s ->
  exists rows' s',
    Desugar.ds pol f rows c Blocks.BRoot false = Blocks.ROk (rows', skipn (Blocks.p_pos s) rows)
    /\ forallb Desugar.row_is_plain_literal rows' = true
    /\ (forall g, length rows' < g ->
          Blocks.parse_block pol scope' emp' tol' rows' g (Blocks.mkP 0 [] []) Blocks.BRoot false = Blocks.ROk s')
    /\ Desugar.toks (rev (Blocks.p_log s')) = Desugar.toks (rev (Blocks.p_log s))
    /\ (exists its, Desugar.shape (rev (Blocks.p_log s)) = Some its)
    /\ Blocks.p_ctx s = c /\ Blocks.p_ctx s' = [].
Proof. exact DesugarFacts.desugar_equiv_fuel. Qed.
Print Assumptions C03_desugar_equiv_any_fuel.

Example C03_desugar_equiv_nonvacuous :
  exists s s',
    Blocks.run_sheet Strict DesugarWitness.ex_rows DesugarWitness.ex_ctx = Blocks.ROk s
    /\ Desugar.desugar Strict DesugarWitness.ex_ctx DesugarWitness.ex_rows = Blocks.ROk DesugarWitness.ex_out
    /\ Blocks.run_sheet Strict DesugarWitness.ex_out [] = Blocks.ROk s'
    /\ Desugar.shape (rev (Blocks.p_log s)) = Some DesugarWitness.ex_shape
    /\ Desugar.shape (rev (Blocks.p_log s')) = Some DesugarWitness.ex_shape
    /\ Blocks.p_ctx s = DesugarWitness.ex_ctx.
Proof. exact DesugarWitness.desugar_equiv_nonvacuous. Qed.
Print Assumptions C03_desugar_equiv_nonvacuous.

(* the converse, with the failures: the sheet is rejected with error e exactly when its desugaring is
   (unterminated / wrong terminator, begin_for without loop variable, undefined name or loop list) *)
Theorem C03_desugar_fails_iff_sheet_fails : forall pol rows c e,
  Blocks.run_sheet pol rows c = Blocks.RErr e <-> Desugar.desugar pol c rows = Blocks.RErr e.
Proof. exact DesugarFacts.desugar_error_iff. Qed.
Print Assumptions C03_desugar_fails_iff_sheet_fails.

Theorem C03_desugar_defined_iff_sheet_accepted : forall pol rows c,
  (exists s, Blocks.run_sheet pol rows c = Blocks.ROk s) <-> (exists rows', Desugar.desugar pol c rows = Blocks.ROk rows').
Proof. exact DesugarFacts.desugar_defined_iff. Qed.
Print Assumptions C03_desugar_defined_iff_sheet_accepted.

Example C03_desugar_fails_iff_sheet_fails_nonvacuous :
  Blocks.run_sheet Strict DesugarWitness.ex_bad DesugarWitness.ex_ctx = Blocks.RErr Blocks.Undefined
  /\ Desugar.desugar Strict DesugarWitness.ex_ctx DesugarWitness.ex_bad = Blocks.RErr Blocks.Undefined
  /\ Blocks.run_sheet Strict (firstn 12 DesugarWitness.ex_rows) DesugarWitness.ex_ctx = Blocks.RErr Blocks.Unterminated
  /\ Desugar.desugar Strict DesugarWitness.ex_ctx (firstn 12 DesugarWitness.ex_rows) = Blocks.RErr Blocks.Unterminated.
Proof. exact DesugarWitness.desugar_error_iff_nonvacuous. Qed.
Print Assumptions C03_desugar_fails_iff_sheet_fails_nonvacuous.

(* the two halves of the proof, as statements of their own.  (1) call by call: EVERY successful call of
   _parse_block on the sugared sheet (any block type, any cursor position, skipped or not) yields with the
   same fuel the desugaring of the rows from that position under the call's context, and the events it
   logged have exactly the tokens of that desugared segment (LitSem: literal, balanced segments with their
   tokens) — in particular a loop equals the block of its unrolled bodies under the same id *)
Theorem C03_unrolling_call_by_call : forall pol tol rows f s bt omit s',
  Blocks.parse_block pol ScopeRestore EmptySkip tol rows f s bt omit = Blocks.ROk s' ->
  exists out evs,
    Desugar.ds pol f (skipn (Blocks.p_pos s) rows) (Blocks.p_ctx s) bt omit = Blocks.ROk (out, skipn (Blocks.p_pos s') rows)
    /\ Blocks.p_log s' = evs ++ Blocks.p_log s
    /\ DesugarFacts.LitSem out (Desugar.toks (rev evs))
    /\ (omit = true -> out = []).
Proof. exact DesugarFacts.unroll_ok. Qed.
Print Assumptions C03_unrolling_call_by_call.

(* (2) the parser on a literal balanced segment lying at position q of ANY sheet, inside ANY block, under ANY
   loop mechanics and context: it logs events with exactly the segment's tokens and goes on behind it *)
Theorem C03_parser_on_desugared_segment : forall pol scope emp tol seg tk,
  DesugarFacts.LitSem seg tk ->
  forall rows q c0 lg, DesugarFacts.At rows q seg ->
  exists evs', Desugar.toks (rev evs') = tk /\
    forall bt f sfin,
      Blocks.parse_block pol scope emp tol rows f (Blocks.mkP (q + length seg) c0 (evs' ++ lg)) bt false = Blocks.ROk sfin ->
      exists f', Blocks.parse_block pol scope emp tol rows f' (Blocks.mkP q c0 lg) bt false = Blocks.ROk sfin.
Proof. exact DesugarFacts.lit_run. Qed.
Print Assumptions C03_parser_on_desugared_segment.

(* ---- corollaries: what the desugaring IS (laws of Desugar.ds, any fuel) ---- *)

(* rows under a false include_if and omitted blocks: the row disappears (its id and text do not occur
   in the law: never rendered); an excluded begin_for / begin_block disappears with everything up to
   its terminator; what is skipped is looked at by type only (any other rows of the same types,
   under any other context, are skipped alike); in the parser, omitted content is never
   instantiated and contributes no token to the shape *)
Theorem C03_excluded_content_removed : forall pol,
  (forall f r rest c bt,
     Blocks.eval_inc pol c (Blocks.rw_inc r) = Blocks.ROk false -> Blocks.rw_kind r = Blocks.KPlain ->
     Desugar.ds pol (S f) (r :: rest) c bt false = Desugar.ds pol f rest c bt false)
  /\ (forall f r rest c bt,
     Blocks.eval_inc pol c (Blocks.rw_inc r) = Blocks.ROk false ->
     (Blocks.rw_kind r = Blocks.KBeginFor \/ Blocks.rw_kind r = Blocks.KBeginBlock) ->
     Desugar.ds pol (S f) (r :: rest) c bt false
     = match Desugar.ds pol f rest c (match Blocks.rw_kind r with Blocks.KBeginFor => Blocks.BFor | _ => Blocks.BBlock end) true with
       | Blocks.ROk (_, rest2) => Desugar.ds pol f rest2 c bt false
       | Blocks.RErr e => Blocks.RErr e
       end)
  /\ (forall f rest rest' c c' bt,
     map Blocks.rw_kind rest = map Blocks.rw_kind rest' ->
     Desugar.same_skip (Desugar.ds pol f rest c bt true) (Desugar.ds pol f rest' c' bt true))
  /\ (forall scope emp tol rows f s bt s',
     Blocks.parse_block pol scope emp tol rows f s bt true = Blocks.ROk s' ->
     Blocks.p_ctx s' = Blocks.p_ctx s
     /\ exists ev, Blocks.p_log s' = ev ++ Blocks.p_log s /\ Forall BlocksFacts.skip_event ev /\ Desugar.toks (rev ev) = []).
Proof. exact DesugarFacts.excluded_content_removed. Qed.
Print Assumptions C03_excluded_content_removed.

Example C03_excluded_content_removed_nonvacuous :
  (exists r rest, skipn 11 DesugarWitness.ex_rows = r :: rest
     /\ Blocks.eval_inc Strict DesugarWitness.ex_c0 (Blocks.rw_inc r) = Blocks.ROk false /\ Blocks.rw_kind r = Blocks.KPlain
     /\ Blocks.render Strict DesugarWitness.ex_c0 (Blocks.rw_text r) = Blocks.RErr Blocks.Undefined)
  /\ (exists r rest, skipn 6 DesugarWitness.ex_rows = r :: rest
     /\ Blocks.eval_inc Strict DesugarWitness.ex_c0 (Blocks.rw_inc r) = Blocks.ROk false /\ Blocks.rw_kind r = Blocks.KBeginBlock
     /\ Blocks.render Strict DesugarWitness.ex_c0 (Blocks.rw_id r) = Blocks.RErr Blocks.Undefined
     /\ Desugar.ds Strict 50 rest DesugarWitness.ex_c0 Blocks.BBlock true = Blocks.ROk ([], skipn 11 DesugarWitness.ex_rows)
     /\ Desugar.ds Strict 50 (skipn 6 DesugarWitness.ex_rows) DesugarWitness.ex_c0 Blocks.BFor false
        = Blocks.ROk (DesugarWitness.ex_only_a, skipn 15 DesugarWitness.ex_rows))
  (* comparison cells (rows 12, 13 of the witness sheet): {{ x == "a" }} holds in the first copy of the body only; the
     index variable is an int and never equals the str "0" (although it renders as 0); an unknown name is an error *)
  /\ (Blocks.eval_inc Strict DesugarWitness.ex_c0 (Blocks.rw_inc (nth 12 DesugarWitness.ex_rows Desugar.end_row)) = Blocks.ROk true
      /\ Blocks.eval_inc Strict DesugarWitness.ex_c1 (Blocks.rw_inc (nth 12 DesugarWitness.ex_rows Desugar.end_row)) = Blocks.ROk false
      /\ Blocks.eval_inc Strict DesugarWitness.ex_c0 (Blocks.rw_inc (nth 13 DesugarWitness.ex_rows Desugar.end_row)) = Blocks.ROk false
      /\ Blocks.render Strict DesugarWitness.ex_c0 [Blocks.Ref DesugarWitness.n_i] = Blocks.ROk DesugarWitness.n_0
      /\ Blocks.eval_inc Strict DesugarWitness.ex_ctx (Blocks.rw_inc (nth 12 DesugarWitness.ex_rows Desugar.end_row)) = Blocks.RErr Blocks.Undefined).
Proof. exact DesugarWitness.excluded_content_nonvacuous. Qed.
Print Assumptions C03_excluded_content_removed_nonvacuous.

(* a loop = begin_block (head rendered) . the body once per element, IN ORDER, the k-th copy
   desugared in the context extended with x := e_k (and index variable := k) . end_block . the rest
   of the enclosing block desugared in the context the loop was reached with *)
Theorem C03_loop_body_repeated_in_order : forall pol f r rest c bt row x more,
  Desugar.loop_head pol c r row x more -> Blocks.i_iter row <> [] ->
  forall bodies rem out rem',
    Desugar.bodies_of pol f rest c x (Desugar.idx_of more) (Blocks.i_iter row) bodies rem ->
    Desugar.ds pol f rem c bt false = Blocks.ROk (out, rem') ->
    Desugar.ds pol (S f) (r :: rest) c bt false
    = Blocks.ROk (Desugar.lit_row Blocks.KBeginBlock (Blocks.i_id row) (Blocks.i_text row)
                  :: concat bodies ++ Desugar.end_row :: out, rem').
Proof. exact DesugarFacts.ds_loop. Qed.
Print Assumptions C03_loop_body_repeated_in_order.

(* zero elements: an empty block; the body is only skipped over (C03_excluded_content_removed, third part) *)
Theorem C03_loop_over_nothing_is_an_empty_block : forall pol f r rest c bt row x more o rem out rem',
  Desugar.loop_head pol c r row x more -> Blocks.i_iter row = [] ->
  Desugar.ds pol f rest c Blocks.BFor true = Blocks.ROk (o, rem) ->
  Desugar.ds pol f rem c bt false = Blocks.ROk (out, rem') ->
  Desugar.ds pol (S f) (r :: rest) c bt false
  = Blocks.ROk (Desugar.lit_row Blocks.KBeginBlock (Blocks.i_id row) (Blocks.i_text row) :: Desugar.end_row :: out, rem').
Proof. exact DesugarFacts.ds_loop_empty. Qed.
Print Assumptions C03_loop_over_nothing_is_an_empty_block.

(* nesting composes: the body of a loop is desugared by the same function, so a loop inside a loop
   is unrolled inside every copy of the outer body, in the context extended first with the outer
   then with the inner variable *)
Theorem C03_nesting_composes : forall pol f r1 r2 rest c bt row1 x more y more2,
  Desugar.loop_head pol c r1 row1 x more -> Blocks.i_iter row1 <> [] ->
  forall heads inner tails rem out rem',
    Desugar.nested_bodies_of pol f r2 rest c x (Desugar.idx_of more) (Blocks.i_iter row1) y more2 heads inner tails rem ->
    Desugar.ds pol (S f) rem c bt false = Blocks.ROk (out, rem') ->
    Desugar.ds pol (S (S f)) (r1 :: r2 :: rest) c bt false
    = Blocks.ROk (Desugar.lit_row Blocks.KBeginBlock (Blocks.i_id row1) (Blocks.i_text row1)
                  :: concat (map Desugar.nested_block (combine heads (combine inner tails))) ++ Desugar.end_row :: out, rem').
Proof. exact DesugarFacts.ds_nested_loops. Qed.
Print Assumptions C03_nesting_composes.

(* "with the loop (and optional index) variable SUBSTITUTED": desugaring the body in the context extended
   with x := e (and i := n) is desugaring, in the context the loop was reached with, the body in which
   {{x}} and {{i}} have been replaced textually (in row ids, texts, include_if and loop lists; the index
   variable first: it is bound last) — when no loop inside the body binds one of the two names again
   (when one does, the extended context IS the definition: the inner binding shadows, and only inside) *)
Theorem C03_loop_variable_substituted : forall pol f rest c x idx e n bt omit b rem,
  Forall (Desugar.no_rebind x) rest -> (forall i, idx = Some i -> Forall (Desugar.no_rebind i) rest) ->
  Desugar.ds pol f rest (Blocks.bind_loop c x idx e n) bt omit = Blocks.ROk (b, rem) ->
  Desugar.ds pol f (Desugar.subst_loop x idx e n rest) c bt omit = Blocks.ROk (b, Desugar.subst_loop x idx e n rem).
Proof. exact DesugarFacts.ds_body_substituted. Qed.
Print Assumptions C03_loop_variable_substituted.

Example C03_loop_variable_substituted_nonvacuous :
  Forall (Desugar.no_rebind DesugarWitness.n_cx) (skipn 3 DesugarWitness.ex_rows)
  /\ Forall (Desugar.no_rebind DesugarWitness.n_x) (skipn 3 DesugarWitness.ex_rows)
  /\ Desugar.ds Strict 40 (skipn 3 DesugarWitness.ex_rows) DesugarWitness.ex_c00 Blocks.BFor false
     = Blocks.ROk (DesugarWitness.ex_b00, skipn 5 DesugarWitness.ex_rows)
  /\ Desugar.ds Strict 40 (Desugar.subst_loop DesugarWitness.n_cx (Some DesugarWitness.n_x) DesugarWitness.n_p 0 (skipn 3 DesugarWitness.ex_rows))
        DesugarWitness.ex_c0 Blocks.BFor false
     = Blocks.ROk (DesugarWitness.ex_b00,
                   Desugar.subst_loop DesugarWitness.n_cx (Some DesugarWitness.n_x) DesugarWitness.n_p 0 (skipn 5 DesugarWitness.ex_rows))
  /\ nth 0 (Desugar.subst_loop DesugarWitness.n_cx (Some DesugarWitness.n_x) DesugarWitness.n_p 0 (skipn 3 DesugarWitness.ex_rows)) Desugar.end_row
     = DesugarWitness.ex_row3_substituted.
Proof. exact DesugarWitness.body_substituted_nonvacuous. Qed.
Print Assumptions C03_loop_variable_substituted_nonvacuous.

(* ... and nothing is left to unroll at any depth: a desugared sheet desugars to itself, in any context *)
Theorem C03_desugared_sheet_is_a_fixed_point : forall pol rows c rows' c',
  Desugar.desugar pol c rows = Blocks.ROk rows' -> Desugar.desugar pol c' rows' = Blocks.ROk rows'.
Proof. exact DesugarFacts.desugar_idempotent. Qed.
Print Assumptions C03_desugared_sheet_is_a_fixed_point.

Example C03_nesting_composes_nonvacuous :
  exists row1,
    Desugar.loop_head Strict DesugarWitness.ex_ctx (nth 1 DesugarWitness.ex_rows Desugar.end_row) row1 DesugarWitness.n_x [DesugarWitness.n_i]
    /\ Blocks.i_iter row1 = DesugarWitness.ex_outer_elems
    /\ Desugar.nested_bodies_of Strict 40 (nth 2 DesugarWitness.ex_rows Desugar.end_row) (skipn 3 DesugarWitness.ex_rows)
         DesugarWitness.ex_ctx DesugarWitness.n_x (Some DesugarWitness.n_i) DesugarWitness.ex_outer_elems
         DesugarWitness.n_cx [DesugarWitness.n_x] DesugarWitness.ex_heads DesugarWitness.ex_inner DesugarWitness.ex_tails
         (skipn 15 DesugarWitness.ex_rows)
    /\ Desugar.ds Strict 41 (skipn 15 DesugarWitness.ex_rows) DesugarWitness.ex_ctx Blocks.BRoot false
       = Blocks.ROk (skipn 14 DesugarWitness.ex_out, [])
    /\ Desugar.ds Strict 42 (skipn 1 DesugarWitness.ex_rows) DesugarWitness.ex_ctx Blocks.BRoot false
       = Blocks.ROk (skipn 1 DesugarWitness.ex_out, []).
Proof. exact DesugarWitness.nested_loops_nonvacuous. Qed.
Print Assumptions C03_nesting_composes_nonvacuous.

Example C03_loop_over_nothing_is_an_empty_block_nonvacuous :
  exists row,
    Desugar.loop_head Strict DesugarWitness.ex_ctx (nth 15 DesugarWitness.ex_rows Desugar.end_row) row DesugarWitness.n_y []
    /\ Blocks.i_iter row = []
    /\ Desugar.ds Strict 40 (skipn 16 DesugarWitness.ex_rows) DesugarWitness.ex_ctx Blocks.BFor true
       = Blocks.ROk ([], skipn 18 DesugarWitness.ex_rows)
    /\ Desugar.ds Strict 40 (skipn 18 DesugarWitness.ex_rows) DesugarWitness.ex_ctx Blocks.BRoot false
       = Blocks.ROk (DesugarWitness.ex_after_loops, [])
    /\ Desugar.ds Strict 41 (skipn 15 DesugarWitness.ex_rows) DesugarWitness.ex_ctx Blocks.BRoot false
       = Blocks.ROk (DesugarWitness.ex_empty_block, []).
Proof. exact DesugarWitness.empty_loop_nonvacuous. Qed.
Print Assumptions C03_loop_over_nothing_is_an_empty_block_nonvacuous.

(* ---- what fails under the other behaviours (the code before the repairs): witnesses ---- *)

(* dict.pop without restoring (ScopePop): the witness sheet is rejected although its desugaring is
   fine; read leniently it is accepted with another shape and the context has lost cx *)
Example C03_desugar_equiv_under_scope_pop_refuted :
  Blocks.parse_block Strict ScopePop EmptySkip true DesugarWitness.ex_rows (Desugar.sheet_fuel DesugarWitness.ex_rows)
    (Blocks.mkP 0 DesugarWitness.ex_ctx []) Blocks.BRoot false = Blocks.RErr Blocks.Undefined
  /\ Desugar.desugar Strict DesugarWitness.ex_ctx DesugarWitness.ex_rows = Blocks.ROk DesugarWitness.ex_out
  /\ exists s, Blocks.parse_block Lenient ScopePop EmptySkip true DesugarWitness.ex_rows (Desugar.sheet_fuel DesugarWitness.ex_rows)
                 (Blocks.mkP 0 DesugarWitness.ex_ctx []) Blocks.BRoot false = Blocks.ROk s
       /\ Blocks.cget (Blocks.p_ctx s) DesugarWitness.n_cx = None
       /\ Desugar.shape (rev (Blocks.p_log s)) <> Some DesugarWitness.ex_shape
       /\ Desugar.desugar Lenient DesugarWitness.ex_ctx DesugarWitness.ex_rows = Blocks.ROk DesugarWitness.ex_out.
Proof. exact DesugarWitness.scope_pop_refuted. Qed.
Print Assumptions C03_desugar_equiv_under_scope_pop_refuted.

(* the body of a loop over nothing left to the enclosing block (EmptyFallThrough): the witness sheet is
   rejected; and a begin_for over nothing WITHOUT end_for is accepted although it has no desugaring *)
Example C03_desugar_equiv_under_empty_fall_through_refuted :
  Blocks.parse_block Strict ScopeRestore EmptyFallThrough true DesugarWitness.ex_rows (Desugar.sheet_fuel DesugarWitness.ex_rows)
    (Blocks.mkP 0 DesugarWitness.ex_ctx []) Blocks.BRoot false = Blocks.RErr Blocks.Undefined
  /\ (exists s, Blocks.parse_block Strict ScopeRestore EmptyFallThrough true DesugarWitness.ft_rows (Desugar.sheet_fuel DesugarWitness.ft_rows)
                  (Blocks.mkP 0 [] []) Blocks.BRoot false = Blocks.ROk s)
  /\ Desugar.desugar Strict [] DesugarWitness.ft_rows = Blocks.RErr Blocks.Unterminated.
Proof. exact DesugarWitness.empty_fall_through_refuted. Qed.
Print Assumptions C03_desugar_equiv_under_empty_fall_through_refuted.

(* remove_from_context not tolerant: only the failure direction breaks (KeyError on the loop over
   nothing); C03_desugar_equiv_any_fuel does not need the tolerance *)
Example C03_desugar_fails_iff_needs_tolerant_remove_refuted :
  Blocks.parse_block Strict ScopeRestore EmptySkip false DesugarWitness.ex_rows (Desugar.sheet_fuel DesugarWitness.ex_rows)
    (Blocks.mkP 0 DesugarWitness.ex_ctx []) Blocks.BRoot false = Blocks.RErr Blocks.KeyErr
  /\ Desugar.desugar Strict DesugarWitness.ex_ctx DesugarWitness.ex_rows = Blocks.ROk DesugarWitness.ex_out.
Proof. exact DesugarWitness.remove_not_tolerant_refuted. Qed.
Print Assumptions C03_desugar_fails_iff_needs_tolerant_remove_refuted.


(* ==== insert_as_block: "an inserted template replaced by a block containing that template's rows instantiated with its
   own data row and arguments" — the ARGUMENTS, typed (Comp/InsertArgs.v).  The cell of an insert row may be a native
   template: the objects it yields (0, False, None, [], {} among them) are the arguments.  [insert_context] is the
   context the inserted template's FlowParser is built with, as a function of the declarations, the data row, the
   inserting context and the argument cell; the harness compares it with the implementation's for every insertion of
   every generated workbook (harness/c03_insert.py), and the workbooks with their desugared forms. ==== *)

(* complete characterisation of Args.map_template_arguments_to_context over objects *)
Theorem C03_inserted_template_context_characterised : forall sheets defs args (c c' : InsertArgs.tctx),
  InsertArgs.bind_args sheets defs args c = Ok c' <->
  NoDup (map Args.ad_name defs) /\ (forall n, In n (map Args.ad_name defs) -> ODict.oget PyStr.str_eqb c n = None)
  /\ exists l, InsertArgsFacts.bound_all sheets (InsertArgsFacts.pairs defs args) = Some l /\ c' = c ++ l.
Proof. exact InsertArgsFacts.bind_args_ok_iff. Qed.
Print Assumptions C03_inserted_template_context_characterised.

(* its own arguments: the argument given at a position is the value the template is instantiated with, whatever its
   type and whatever its truth value — unless it is the empty string *)
Theorem C03_given_argument_reaches_inserted_template : forall sheets defs args (c c' : InsertArgs.tctx) i d,
  InsertArgs.bind_args sheets defs args c = Ok c' -> nth_error defs i = Some d ->
  PyStr.str_eqb (Args.ad_type d) sheet_type_kw = false ->
  nth i args (MiniJinja.VStr []) <> MiniJinja.VStr [] ->
  ODict.oget PyStr.str_eqb c' (Args.ad_name d) = Some (nth i args (MiniJinja.VStr [])).
Proof. exact InsertArgsFacts.given_argument_reaches_template. Qed.
Print Assumptions C03_given_argument_reaches_inserted_template.

Theorem C03_falsy_argument_is_not_replaced_by_default : forall sheets defs args (c c' : InsertArgs.tctx) i d,
  InsertArgs.bind_args sheets defs args c = Ok c' -> nth_error defs i = Some d ->
  PyStr.str_eqb (Args.ad_type d) sheet_type_kw = false ->
  InsertArgsFacts.falsy_object (nth i args (MiniJinja.VStr [])) ->
  ODict.oget PyStr.str_eqb c' (Args.ad_name d) = Some (nth i args (MiniJinja.VStr [])).
Proof. exact InsertArgsFacts.falsy_argument_is_kept. Qed.
Print Assumptions C03_falsy_argument_is_not_replaced_by_default.

Theorem C03_only_the_empty_string_is_a_blank_argument :
  (forall v, InsertArgs.is_blank v = true <-> v = MiniJinja.VStr [])
  /\ (forall v, InsertArgsFacts.falsy_object v -> InsertArgs.is_blank v = false)
  /\ InsertArgsFacts.falsy_object (MiniJinja.VInt Z0) /\ InsertArgsFacts.falsy_object (MiniJinja.VBool false)
  /\ InsertArgsFacts.falsy_object MiniJinja.VNone /\ InsertArgsFacts.falsy_object (MiniJinja.VList [])
  /\ InsertArgsFacts.falsy_object (MiniJinja.VTuple []) /\ InsertArgsFacts.falsy_object (MiniJinja.VDict []).
Proof.
  exact (conj InsertArgsFacts.is_blank_iff (conj InsertArgsFacts.falsy_object_not_blank InsertArgsFacts.falsy_objects)).
Qed.
Print Assumptions C03_only_the_empty_string_is_a_blank_argument.

Theorem C03_blank_argument_takes_declared_default : forall sheets defs args (c c' : InsertArgs.tctx) i d,
  InsertArgs.bind_args sheets defs args c = Ok c' -> nth_error defs i = Some d ->
  PyStr.str_eqb (Args.ad_type d) sheet_type_kw = false ->
  nth i args (MiniJinja.VStr []) = MiniJinja.VStr [] ->
  ODict.oget PyStr.str_eqb c' (Args.ad_name d) = Some (MiniJinja.VStr (Args.ad_default d)) /\ Args.ad_default d <> [].
Proof. exact InsertArgsFacts.typed_blank_takes_default. Qed.
Print Assumptions C03_blank_argument_takes_declared_default.

Theorem C03_missing_required_argument_is_reported : forall sheets defs args (c : InsertArgs.tctx) i d,
  nth_error defs i = Some d -> Args.ad_default d = [] -> nth i args (MiniJinja.VStr []) = MiniJinja.VStr [] ->
  forall c', InsertArgs.bind_args sheets defs args c <> Ok c'.
Proof. exact InsertArgsFacts.typed_missing_required_is_error. Qed.
Print Assumptions C03_missing_required_argument_is_reported.

(* its own data row: the binding leaves it as it is *)
Theorem C03_data_row_kept_by_argument_binding : forall sheets defs args (c c' : InsertArgs.tctx) k v,
  InsertArgs.bind_args sheets defs args c = Ok c' -> ODict.oget PyStr.str_eqb c k = Some v ->
  ODict.oget PyStr.str_eqb c' k = Some v.
Proof. exact InsertArgsFacts.typed_context_kept. Qed.
Print Assumptions C03_data_row_kept_by_argument_binding.

Theorem C03_surplus_arguments_ignored : forall sheets defs args extra (c : InsertArgs.tctx),
  (length defs <= length args)%nat ->
  InsertArgs.bind_args sheets defs (args ++ extra) c = InsertArgs.bind_args sheets defs args c.
Proof. exact InsertArgsFacts.typed_extra_args_ignored. Qed.
Print Assumptions C03_surplus_arguments_ignored.

(* on what a content-index row or a text cell can hold (strings, nested lists of strings) the typed binding IS the
   binding of C12's model (Index/Args.v): C12's theorems speak about the same function *)
Theorem C03_typed_binding_extends_string_binding :
  forall (D : Type) (inj : D -> MiniJinja.value) (rows_value : Args.dsheet D -> MiniJinja.value)
         sheets defs (args : list Cell.nv) (c : Args.ctx D),
  InsertArgs.bind_args (InsertArgsFacts.sheets_value rows_value sheets) defs (map RowLoop.nv_to_value args)
                       (InsertArgsFacts.ctx_value inj rows_value c)
  = InsertArgsFacts.res_value inj rows_value (Args.map_template_arguments_to_context sheets defs args c).
Proof. exact (@InsertArgsFacts.typed_binding_extends_string_binding). Qed.
Print Assumptions C03_typed_binding_extends_string_binding.

(* ... and the context C16's insert model (Tmpl/Insert.v: one declared argument, no default, a string) builds is this binding *)
Theorem C03_typed_binding_agrees_with_insert_model : forall (t : Insert.template) (a : Sexp.str) c,
  Insert.block_context t a = Ok c ->
  InsertArgs.bind_args [] (InsertArgsFacts.defs_of_template t) [MiniJinja.VStr a] [] = Ok c.
Proof. exact InsertArgsFacts.block_context_is_typed_binding. Qed.
Print Assumptions C03_typed_binding_agrees_with_insert_model.

(* nothing of the inserting flow reaches the inserted template except through the value of the argument cell *)
Theorem C03_inserted_template_sees_inserting_flow_only_through_argument_cell :
  forall pe pn sheets defs row o1 o2 cell,
  InsertArgs.insert_args pe pn o1 cell = InsertArgs.insert_args pe pn o2 cell ->
  InsertArgs.insert_context pe pn sheets defs row o1 cell = InsertArgs.insert_context pe pn sheets defs row o2 cell.
Proof. exact InsertArgsFacts.insert_context_only_through_cell. Qed.
Print Assumptions C03_inserted_template_sees_inserting_flow_only_through_argument_cell.

(* the loop and its unrolled form: `begin_for k in <elements>` around `insert_as_block t` with template_arguments
   {@ [k] @}.  [cxs]: the inserting contexts of the successive iterations (each binds k to its element, whatever else
   it holds).  The k-th insertion is instantiated exactly as the unrolled row whose argument list is [e_k] *)
Theorem C03_loop_hands_each_element_to_inserted_template :
  forall pe pn sheets defs row (cxs : list InsertArgs.tctx) (es : list MiniJinja.value),
  Forall2 (fun cx e => MiniJinja.lookup cx InsertArgsFacts.kname = Some e /\ MiniJinja.has_undef e = false) cxs es ->
  map (fun cx => InsertArgs.insert_context pe pn sheets defs row cx (Some InsertArgsFacts.cell_k)) cxs
  = map (fun e => InsertArgs.bind_args sheets defs [e] row) es.
Proof. exact InsertArgsFacts.loop_hands_each_element_to_template. Qed.
Print Assumptions C03_loop_hands_each_element_to_inserted_template.

(* ... over range(n): the template is instantiated with 0, 1, ..., n-1 — the first index is not the declared default *)
Theorem C03_range_loop_hands_each_index_to_inserted_template : forall pe pn d row n (cxs : list InsertArgs.tctx),
  PyStr.str_eqb (Args.ad_type d) sheet_type_kw = false -> ODict.oget PyStr.str_eqb row (Args.ad_name d) = None ->
  Forall2 (fun cx e => MiniJinja.lookup cx InsertArgsFacts.kname = Some e) cxs (MiniJinja.zrange n) ->
  map (fun cx => InsertArgs.insert_context pe pn [] [d] row cx (Some InsertArgsFacts.cell_k)) cxs
  = map (fun e => Ok (row ++ [(Args.ad_name d, e)])) (MiniJinja.zrange n).
Proof. exact InsertArgsFacts.range_loop_hands_each_index. Qed.
Print Assumptions C03_range_loop_hands_each_index_to_inserted_template.

(* a binding that asks for the argument's TRUTH VALUE (`arg or default`) instead of comparing it with "" is another
   function: equal on every string, different on every falsy object when a default is declared *)
Theorem C03_binding_by_truth_value_refuted :
  (forall d a, InsertArgsFacts.falsy_object a -> Args.ad_default d <> [] ->
     InsertArgsFacts.arg_value_by_truth d a = MiniJinja.VStr (Args.ad_default d) /\ InsertArgs.arg_value d a = a
     /\ InsertArgs.arg_value d a <> InsertArgsFacts.arg_value_by_truth d a)
  /\ (forall d s, InsertArgsFacts.arg_value_by_truth d (MiniJinja.VStr s) = InsertArgs.arg_value d (MiniJinja.VStr s)).
Proof. exact (conj InsertArgsFacts.binding_by_truth_differs InsertArgsFacts.binding_by_truth_same_on_strings). Qed.
Print Assumptions C03_binding_by_truth_value_refuted.

Example C03_inserted_template_arguments_nonvacuous : InsertArgsFacts.insert_witness.
Proof. exact InsertArgsFacts.insert_witness_holds. Qed.
Print Assumptions C03_inserted_template_arguments_nonvacuous.
