(* C03 — loops, blocks, include_if and inserted blocks are pure sugar.
   Equivalence "for all contact input sequences" between the flow of a sugared sheet and
   the flow of its desugared twin is discharged by theorem for every pair the checker
   accepts; the quantifier over sheets is discharged per generated twin pair.
   The loop mechanics themselves (models Comp/Blocks.v and Tmpl/RowLoop.v, run with the
   behaviour the probes of Gen/Tables.v find in the code) carry theorems for ALL sheets:
   loop variables are lexically scoped and a loop over nothing is a pass-through. *)
From Coq Require Import List NArith Bool.
From RPFT Require Import Base.Sexp Base.SexpEq Base.Result Gen.Tables Flow.Lts Flow.Flow Flow.FlowFacts.
From RPFT Require Comp.Blocks Comp.BlocksFacts Cell.Cell Tmpl.MiniJinja Tmpl.RowLoop Tmpl.TmplFacts Tmpl.RowLoopFacts.
Import ListNotations.

Theorem C03_bisim_check_sound : forall f g,
  bisim_check f g = true -> forall t, traces f t <-> traces g t.
Proof. exact bisim_check_sound. Qed.
Print Assumptions C03_bisim_check_sound.

Theorem C03_sim_check_sound : forall lm f g,
  sim_check lm f g = true ->
  forall t, traces f t -> exists t', traces g t' /\ Forall2 (ematch sexp lm) t t'.
Proof. exact sim_check_sound. Qed.
Print Assumptions C03_sim_check_sound.

(* ---- loop mechanics, for every sheet, context, fuel, block type and undefined policy ---- *)

(* 1. lexical scope (the code after the repair of loop-variable-shadows-outer-variable: the
   bindings shadowed by the loop and index variables are put back after end_for): every call
   of _parse_block, hence every loop however nested, returns with EXACTLY the context it was
   entered with — whatever the variables are called, also `x;x`, also over zero elements *)
Theorem C03_loop_variables_lexically_scoped : forall pol emp tol rows fuel s bt omit s',
  Blocks.parse_block pol ScopeRestore emp tol rows fuel s bt omit = Blocks.ROk s' ->
  Blocks.p_ctx s' = Blocks.p_ctx s.
Proof. exact BlocksFacts.ctx_preserved. Qed.
Print Assumptions C03_loop_variables_lexically_scoped.

Example C03_loop_variables_lexically_scoped_nonvacuous :
  Blocks.parse_block Strict ScopeRestore EmptySkip true BlocksFacts.w_rows 50
    (Blocks.mkP 0 BlocksFacts.w_ctx []) Blocks.BRoot false
  = Blocks.ROk (Blocks.mkP 4 BlocksFacts.w_ctx
      [Blocks.EvRow [] [97; 102; 116; 101; 114; 32; 67; 88; 86; 65; 76]%N; Blocks.EvInst 3; Blocks.EvEnd [49]%N;
       Blocks.EvInst 2; Blocks.EvRow [] [49; 98]%N; Blocks.EvInst 1; Blocks.EvEnter Blocks.BFor false;
       Blocks.EvInst 2; Blocks.EvRow [] [48; 97]%N; Blocks.EvInst 1; Blocks.EvEnter Blocks.BFor false; Blocks.EvPush; Blocks.EvInst 0]).
Proof. exact BlocksFacts.ctx_preserved_nonvacuous. Qed.
Print Assumptions C03_loop_variables_lexically_scoped_nonvacuous.

(* the same on the templating model that C16's correspondence ties to FlowParser *)
Theorem C03_rowloop_variable_lexically_scoped : forall pe pn emp tol rows fuel bt omit pos cx log log' p cx',
  RowLoop.parse_block pe pn ScopeRestore emp tol rows fuel bt omit pos cx log = (log', Ok (p, cx')) -> cx' = cx.
Proof. exact RowLoopFacts.rowloop_ctx_preserved. Qed.
Print Assumptions C03_rowloop_variable_lexically_scoped.

(* the defect as it was recorded (dict.pop): kept as the witness that ScopeRestore is needed *)
Example C03_pop_policy_loses_binding_refuted :
  Blocks.parse_block Strict ScopePop EmptyFallThrough false BlocksFacts.w_rows 50
    (Blocks.mkP 0 BlocksFacts.w_ctx []) Blocks.BRoot false = Blocks.RErr Blocks.Undefined
  /\ exists lg, Blocks.parse_block Lenient ScopePop EmptyFallThrough false BlocksFacts.w_rows 50
                  (Blocks.mkP 0 BlocksFacts.w_ctx []) Blocks.BRoot false
                = Blocks.ROk (Blocks.mkP 4 [([107]%N, Blocks.VS [75]%N)]
                                (Blocks.EvRow [] [97; 102; 116; 101; 114; 32]%N :: lg)).
Proof. exact BlocksFacts.pop_loses_binding. Qed.
Print Assumptions C03_pop_policy_loses_binding_refuted.

(* 2. content read with omit_content (a false include_if head, the body of an empty loop) is
   inert: nothing instantiated, no row handed on, no group registered, context untouched *)
Theorem C03_omitted_content_is_inert : forall pol scope emp tol rows fuel s bt s',
  Blocks.parse_block pol scope emp tol rows fuel s bt true = Blocks.ROk s' ->
  Blocks.p_ctx s' = Blocks.p_ctx s
  /\ exists ev, Blocks.p_log s' = ev ++ Blocks.p_log s /\ Forall BlocksFacts.skip_event ev.
Proof. exact BlocksFacts.omit_is_inert. Qed.
Print Assumptions C03_omitted_content_is_inert.

(* 3. a loop over zero elements (the code after the repair of empty-loop) is a pass-through:
   its body is consumed with omit_content, an empty group is registered under the head's id
   (as for begin_block ... end_block with nothing inside), the enclosing block goes on *)
Theorem C03_empty_loop_pass_through : forall pol rows f s bt s1 row x rest,
  Blocks.next_row pol rows s false = Blocks.ROk (s1, Some row) ->
  Blocks.i_kind row = Blocks.KBeginFor -> Blocks.i_inc row = true -> Blocks.i_iter row = [] ->
  Blocks.i_vars row = x :: rest -> x <> [] ->
  Blocks.parse_block pol ScopeRestore EmptySkip true rows (S f) s bt false
  = match Blocks.parse_block pol ScopeRestore EmptySkip true rows f (Blocks.log (Blocks.log s1 Blocks.EvPush) (Blocks.EvEnter Blocks.BFor true)) Blocks.BFor true with
    | Blocks.ROk s2 => Blocks.parse_block pol ScopeRestore EmptySkip true rows f (Blocks.log s2 (Blocks.EvEnd (Blocks.i_id row))) bt false
    | Blocks.RErr e => Blocks.RErr e
    end.
Proof. exact BlocksFacts.empty_loop_pass_through. Qed.
Print Assumptions C03_empty_loop_pass_through.

Example C03_empty_loop_pass_through_nonvacuous :
  (exists s1 row, Blocks.next_row Strict BlocksFacts.e_rows (Blocks.mkP 1 BlocksFacts.e_ctx []) false = Blocks.ROk (s1, Some row)
                  /\ Blocks.i_kind row = Blocks.KBeginFor /\ Blocks.i_inc row = true /\ Blocks.i_iter row = []
                  /\ Blocks.i_vars row = [[120]%N])
  /\ Blocks.parse_block Strict ScopeRestore EmptySkip true BlocksFacts.e_rows 50 (Blocks.mkP 0 BlocksFacts.e_ctx []) Blocks.BRoot false
     = Blocks.ROk (Blocks.mkP 8 BlocksFacts.e_ctx
         [Blocks.EvRow [] [98; 121; 101]%N; Blocks.EvInst 7; Blocks.EvEnd [50]%N; Blocks.EvEnter Blocks.BBlock true;
          Blocks.EvEnter Blocks.BFor true; Blocks.EvPush; Blocks.EvInst 1; Blocks.EvRow [] [104; 105]%N; Blocks.EvInst 0])
  /\ Blocks.parse_block Strict ScopePop EmptyFallThrough false BlocksFacts.e_rows 50 (Blocks.mkP 0 BlocksFacts.e_ctx []) Blocks.BRoot false
     = Blocks.RErr Blocks.KeyErr.
Proof. exact BlocksFacts.empty_loop_pass_through_nonvacuous. Qed.
Print Assumptions C03_empty_loop_pass_through_nonvacuous.

(* on the templating model: the empty loop is, event for event, the same head under a false
   include_if (its body is never handed to the template engine: C16_skipped_not_evaluated) *)
Theorem C03_rowloop_empty_loop_skipped : forall pe pn rows f bt pos cx log r var log2,
  nth_error rows pos = Some r -> RowLoop.rk r = RowLoop.KBeginFor var -> var <> [] ->
  RowLoop.inst_row_incl pe pn (Some cx) r (log ++ [RowLoop.EvRow pos true]) = (log2, Ok (true, RowLoop.MEntries [])) ->
  RowLoop.parse_block pe pn ScopeRestore EmptySkip true rows (S f) bt false pos cx log
  = match RowLoop.parse_block pe pn ScopeRestore EmptySkip true rows f RowLoop.BFor true (S pos) cx log2 with
    | (log3, Err e) => (log3, Err e)
    | (log3, Ok (p, _)) => RowLoop.parse_block pe pn ScopeRestore EmptySkip true rows f bt false p cx log3
    end.
Proof. exact RowLoopFacts.rowloop_empty_loop_skipped. Qed.
Print Assumptions C03_rowloop_empty_loop_skipped.

(* non-vacuity of the two RowLoop statements (concrete sheets; the second component of each is
   what the code did before the repairs) *)
Example C03_rowloop_variable_lexically_scoped_nonvacuous :
  snd (RowLoop.parse_block Strict Strict ScopeRestore EmptySkip true RowLoopFacts.sh_rows 50 RowLoop.BRoot false 0 TmplFacts.ex_ctx [])
  = Ok (4%nat, TmplFacts.ex_ctx)
  /\ snd (RowLoop.parse_block Strict Strict ScopePop EmptyFallThrough false RowLoopFacts.sh_rows 50 RowLoop.BRoot false 0 TmplFacts.ex_ctx [])
     = Err MiniJinja.EUndefined.
Proof. exact RowLoopFacts.rowloop_scoped_witness. Qed.
Print Assumptions C03_rowloop_variable_lexically_scoped_nonvacuous.

Example C03_rowloop_empty_loop_skipped_nonvacuous :
  (exists log2, RowLoop.inst_row_incl Strict Strict (Some TmplFacts.ex_ctx)
                  (RowLoop.mk_srow (RowLoop.KBeginFor [120]%N) (TmplFacts.cT []) (MiniJinja.CNative (MiniJinja.EList [])))
                  ([RowLoop.EvRow 0 true; RowLoop.EvEmit [104; 105]%N] ++ [RowLoop.EvRow 1 true])
                = (log2, Ok (true, RowLoop.MEntries [])))
  /\ RowLoop.parse_block Strict Strict ScopeRestore EmptySkip true RowLoopFacts.em_rows 50 RowLoop.BRoot false 0 TmplFacts.ex_ctx []
     = ([RowLoop.EvRow 0 true; RowLoop.EvEmit [104; 105]%N; RowLoop.EvRow 1 true;
         RowLoop.EvRender [123; 64; 32; 91; 93; 32; 64; 125]%N;
         RowLoop.EvRow 2 false; RowLoop.EvRow 3 false; RowLoop.EvRow 4 true; RowLoop.EvEmit [116; 97; 105; 108]%N],
        Ok (5%nat, TmplFacts.ex_ctx))
  /\ snd (RowLoop.parse_block Strict Strict ScopePop EmptyFallThrough false RowLoopFacts.em_rows 50 RowLoop.BRoot false 0 TmplFacts.ex_ctx [])
     = Err MiniJinja.EKey.
Proof. exact RowLoopFacts.rowloop_empty_loop_skipped_nonvacuous. Qed.
Print Assumptions C03_rowloop_empty_loop_skipped_nonvacuous.
