(* C13 — output is a function of the input: deterministic, repeatable, history-free.
   PARTIAL by nature: a pure function cannot leak, so these theorems say that the hidden
   state the code really has (Io/Hidden.v; inventory regenerated from the source) is handled
   by a sound discipline.  A leak through state outside the model is the business of the
   history-driven oracle in harness/c13.py.
   Only property theorems here, each closed by [exact] and followed by Print Assumptions. *)
From Coq Require Import List NArith Bool Arith.
From RPFT Require Import Base.Sexp Base.PyStr Base.Result Gen.Tables Io.Hidden Io.HiddenInventory Io.HiddenFacts.
Import ListNotations.

(* 0. the model covers exactly the hidden state the current source has *)
Theorem C13_inventory_ok : inventory_okb = true.
Proof. exact inventory_ok. Qed.
Print Assumptions C13_inventory_ok.

Theorem C13_handler_discipline_ok : handler_discipline_okb = true.
Proof. exact handler_discipline_ok. Qed.
Print Assumptions C13_handler_discipline_ok.

(* 1. the logging-context stack is balanced after every call sequence, failing calls included *)
Theorem C13_stack_balanced : forall cs, h_stack (fst (run init cs)) = [].
Proof. exact stack_balanced. Qed.
Print Assumptions C13_stack_balanced.

(* 2. no call writes a mutable default *)
Theorem C13_defaults_pristine : forall cs, h_slots (fst (run init cs)) = init_slots.
Proof. exact defaults_pristine. Qed.
Print Assumptions C13_defaults_pristine.

(* 3. history freedom of the calls that work from files *)
Theorem C13_history_free_partial : forall h c, reachable h -> file_call c = true ->
  snd (step h c) = shift_outcome (h_fresh h) (snd (step init c)).
Proof. exact history_free. Qed.
Print Assumptions C13_history_free_partial.

(* 4. exporting twice gives the same rows, whatever an earlier export left behind *)
Theorem C13_to_rows_twice : forall f, snd (to_rows (fst (to_rows f))) = snd (to_rows f).
Proof. exact to_rows_twice. Qed.
Print Assumptions C13_to_rows_twice.
