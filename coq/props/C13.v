(* C13 — output is a function of the input: deterministic, repeatable, history-free.
   PARTIAL by nature: a pure function cannot leak, so these theorems say that the hidden
   state the code really has (Io/Hidden.v; inventory regenerated from the source) is handled
   by a sound discipline.  A leak through state outside the model is the business of the
   history-driven oracle in harness/c13.py.
   Only property theorems here, each closed by [exact] and followed by Print Assumptions.
   Full statements that are false of the faithful model are Definitions [.._full] in the facts
   files, refuted here with their true restriction beside them. *)
From Coq Require Import Permutation.
From Coq Require Import List NArith Bool Arith.
From RPFT Require Import Base.Sexp Base.PyStr Base.Result Gen.Tables Io.Hidden Io.HiddenInventory Io.HiddenFacts
  Io.HiddenRenderFacts Io.HiddenHistoryFacts Io.HiddenFreshFacts Io.HiddenIdsFacts Io.HiddenOrder Io.HiddenOrderFacts
  Io.HiddenHost Io.HiddenHostFacts.
Import ListNotations.

(* 0. the model covers exactly the hidden state the current source has *)
Theorem C13_inventory_ok : inventory_okb = true.
Proof. exact inventory_ok. Qed.
Print Assumptions C13_inventory_ok.

Theorem C13_handler_discipline_ok : handler_discipline_okb = true.
Proof. exact handler_discipline_ok. Qed.
Print Assumptions C13_handler_discipline_ok.

(* 0'. "regardless of hash randomisation": every set / directory enumeration / id / hash / clock / random source of
   the current source whose order or value could leave it (iterated, converted to a sequence, handed on) is one of
   the reviewed ones (Io/HiddenOrder.v: covered_order_exposures) or a uuid4() call (sanctioned wherever it sits, and at least one must exist); all others are only searched, measured, compared
   or sorted ... *)
Theorem C13_order_sources_ok : order_sources_okb = true.
Proof. exact order_sources_ok. Qed.
Print Assumptions C13_order_sources_ok.

(* ... which no arrangement of the elements can influence, *)
Theorem C13_member_uses_order_free : forall a b : list str, Permutation a b ->
  (forall p, set_search p a = set_search p b) /\ set_len a = set_len b /\ (forall x, set_mem x a = set_mem x b).
Proof. exact member_uses_order_free. Qed.
Print Assumptions C13_member_uses_order_free.

(* whereas iterating a set does see the arrangement (why `iter` entries are not accepted unreviewed) *)
Theorem C13_iterated_set_order_free_refuted : ~ iterated_set_order_free.
Proof. exact iterated_set_order_dependent. Qed.
Print Assumptions C13_iterated_set_order_free_refuted.

(* 1. the logging-context stack is balanced after every call sequence, failing calls included *)
Theorem C13_stack_balanced : forall cs, h_stack (fst (run init cs)) = [].
Proof. exact stack_balanced. Qed.
Print Assumptions C13_stack_balanced.

(* 2. no call writes a mutable default *)
Theorem C13_defaults_pristine : forall cs, h_slots (fst (run init cs)) = init_slots.
Proof. exact defaults_pristine. Qed.
Print Assumptions C13_defaults_pristine.

(* 3. history freedom of the calls that work from files (partial: calls on a kept container
   depend, by design, on what was done to THAT container; see 4) *)
Theorem C13_history_free_partial : forall h c, reachable h -> file_call c = true ->
  snd (step h c) = shift_outcome (h_fresh h) (snd (step init c)).
Proof. exact history_free. Qed.
Print Assumptions C13_history_free_partial.

Example C13_history_free_nonvacuous :
  exists h c r, reachable h /\ file_call c = true /\ 0 < h_fresh h /\ snd (step init c) = ORendered r.
Proof. exact history_free_nonvacuous. Qed.
Print Assumptions C13_history_free_nonvacuous.

(* 4a. exporting twice gives the same rows, whatever an earlier export left behind *)
Theorem C13_to_rows_twice : forall f, snd (to_rows (fst (to_rows f))) = snd (to_rows f).
Proof. exact to_rows_twice. Qed.
Print Assumptions C13_to_rows_twice.

(* 4b. an export leaves no trace in ANY later call: renders, exports, compilations *)
Theorem C13_to_rows_leaves_no_trace : forall h i j cs,
  snd (run (fst (step h (CToRows i j))) cs) = snd (run h cs).
Proof. exact to_rows_leaves_no_trace. Qed.
Print Assumptions C13_to_rows_leaves_no_trace.

(* 4c. rendering twice: the second render returns the same document and changes nothing at all
   in the hidden state (no new uuid), whatever the process did before *)
Theorem C13_render_twice : forall h i h1 r,
  reachable h -> step h (CRender i) = (h1, ORendered r) -> step h1 (CRender i) = (h1, ORendered r).
Proof. exact render_twice_history. Qed.
Print Assumptions C13_render_twice.

Example C13_render_twice_nonvacuous :
  exists h h1 r, reachable h /\ step h (CRender 0) = (h1, ORendered r) /\ r_groups r = [([71]%N, Some (Fresh 2))].
Proof. exact render_twice_history_nonvacuous. Qed.
Print Assumptions C13_render_twice_nonvacuous.

(* 4d. "render does not change what to_rows returns" (render_then_to_rows_full) is FALSE of the
   faithful model: the first render gives id-less references their identifiers ... *)
Theorem C13_render_then_to_rows_refuted : ~ render_then_to_rows_full.
Proof. exact render_then_to_rows_refuted. Qed.
Print Assumptions C13_render_then_to_rows_refuted.

(* ... it holds from the first render on ... *)
Theorem C13_render_then_to_rows_validated : forall h i h1 r j,
  reachable h -> step h (CRender i) = (h1, ORendered r) ->
  snd (step (fst (step h1 (CRender i))) (CToRows i j)) = snd (step h1 (CToRows i j)).
Proof. exact render_then_to_rows_validated. Qed.
Print Assumptions C13_render_then_to_rows_validated.

(* ... and what the first render changes is the references' identifiers only *)
Theorem C13_render_changes_only_refs : forall fd gd f,
  map erase_node (snd (to_rows (mkF (f_name f) (f_uuid f) (map (assign_act fd gd) (f_nodes f)) (f_scratch f))))
  = map erase_node (snd (to_rows f)).
Proof. exact render_changes_only_refs. Qed.
Print Assumptions C13_render_changes_only_refs.

(* 5. invented ids are never reused between runs: ids of two compilations in one process are
   disjoint (partial: "between objects" is proved per flow in 5b, across a whole document by the tie) *)
Theorem C13_fresh_never_reused_partial : forall h t1 w1 cs t2 w2,
  reachable h ->
  forall u, In u (outcome_ids (snd (step h (CCreateFlows t1 w1)))) ->
            In u (outcome_ids (snd (step (fst (run (fst (step h (CCreateFlows t1 w1))) cs)) (CCreateFlows t2 w2)))) ->
            exists s, u = Given s.
Proof. exact fresh_never_reused. Qed.
Print Assumptions C13_fresh_never_reused_partial.

Example C13_fresh_never_reused_nonvacuous :
  exists u, In u (outcome_ids (snd (step init (CCreateFlows None wb_two)))) /\ u = Fresh 0 /\
            In (Fresh 4) (outcome_ids (snd (step (fst (step init (CCreateFlows None wb_two))) (CCreateFlows None wb_two)))).
Proof. exact fresh_never_reused_nonvacuous. Qed.
Print Assumptions C13_fresh_never_reused_nonvacuous.

(* 5'. "... regardless of what the process did before", for what the HOST process does to state it controls (random.seed(k),
   random.setstate, frozen clocks, a fixed pid: Io/HiddenHost.v, [CHost] = the call that reaches nothing of the hidden state):
   a history with host operations anywhere in it ends in the same state and returns the same outcomes as without them *)
Theorem C13_host_ops_invisible : forall cs1 hs cs2 h, forallb is_host hs = true ->
  fst (run h (cs1 ++ hs ++ cs2)) = fst (run h (cs1 ++ cs2)) /\
  snd (run h (cs1 ++ hs ++ cs2)) = snd (run h cs1) ++ map (fun _ => ONone) hs ++ snd (run (fst (run h cs1)) cs2).
Proof. exact host_ops_erasable. Qed.
Print Assumptions C13_host_ops_invisible.

(* ... and the repeated-state scenario itself: [host operations; compilation]; any calls; [host operations; compilation] never
   share an invented id (partial for the same reason as 5: between objects of one document only per flow, 5b) *)
Theorem C13_fresh_never_reused_repeated_state_partial : forall h hs hs' t1 w1 cs t2 w2,
  reachable h -> forallb is_host hs = true -> forallb is_host hs' = true ->
  forall u, In u (outcome_ids (snd (after_host h hs (CCreateFlows t1 w1)))) ->
            In u (outcome_ids (snd (after_host (fst (run (fst (after_host h hs (CCreateFlows t1 w1))) cs)) hs' (CCreateFlows t2 w2)))) ->
            exists s, u = Given s.
Proof. exact fresh_never_reused_repeated_state. Qed.
Print Assumptions C13_fresh_never_reused_repeated_state_partial.

Example C13_fresh_never_reused_repeated_state_nonvacuous :
  In (Fresh 0) (outcome_ids (snd (after_host init [CHost; CHost] (CCreateFlows None wb_two)))) /\
  In (Fresh 4) (outcome_ids (snd (after_host (fst (after_host init [CHost; CHost] (CCreateFlows None wb_two))) [CHost; CHost] (CCreateFlows None wb_two)))).
Proof. exact fresh_never_reused_repeated_state_nonvacuous. Qed.
Print Assumptions C13_fresh_never_reused_repeated_state_nonvacuous.

(* 5a. a render / export only shows ids handed out so far *)
Theorem C13_kept_ids_bounded : forall h c,
  reachable h -> Forall (bu (h_fresh (fst (step h c)))) (outcome_ids (snd (step h c))).
Proof. exact kept_ids_bounded. Qed.
Print Assumptions C13_kept_ids_bounded.

(* 5b. the invented object ids of one compiled flow are pairwise distinct and were all drawn
   during this flow's own parse *)
Theorem C13_parse_flow_fresh_distinct : forall n0 nm rows c,
  bcont n0 c ->
  bd n0 (parse_flow nm rows c)
     (fun n r => NoDup (fresh_nums (map fst (f_nodes (fst r)) ++ [f_uuid (fst r)]))
                 /\ Forall (fun m => n0 <= m < n) (fresh_nums (map fst (f_nodes (fst r)) ++ [f_uuid (fst r)]))).
Proof. exact parse_flow_fresh_distinct. Qed.
Print Assumptions C13_parse_flow_fresh_distinct.

Example C13_parse_flow_fresh_distinct_nonvacuous :
  exists s' f c', parse_flow [102]%N [FSend [] (Lit [104]%N); FFor [120]%N [[97]%N; [98]%N] [FSend [] (Var [120]%N)]] empty_cont (enter0 init) = (s', Ok (f, c'))
                  /\ fresh_nums (map fst (f_nodes f) ++ [f_uuid f]) = [0; 1; 2; 3].
Proof. exact parse_flow_fresh_distinct_nonvacuous. Qed.
Print Assumptions C13_parse_flow_fresh_distinct_nonvacuous.

(* 6. given identifiers are reproduced verbatim.  Parse (partial: loop-free sheets; with loops by
   the tie): the k-th node is the k-th row with the row's _nodeId / obj_id ... *)
Theorem C13_given_verbatim_parse_partial : forall nm rows c,
  forallb flat_row rows = true ->
  post (parse_flow nm rows c) (fun r => f_name (fst r) = nm /\ Forall2 row_node rows (f_nodes (fst r))).
Proof. exact parse_flow_given_verbatim. Qed.
Print Assumptions C13_given_verbatim_parse_partial.

Example C13_given_verbatim_nonvacuous :
  exists s' f c', parse_flow [102]%N [FSend s_n1 (Lit [104]%N); FGroup [] [71]%N s_g1] empty_cont (enter0 init) = (s', Ok (f, c'))
                  /\ f_nodes f = [(Given s_n1, ASend [104]%N); (Fresh 0, AGroup [71]%N (Some (Given s_g1)))].
Proof. exact given_verbatim_nonvacuous. Qed.
Print Assumptions C13_given_verbatim_nonvacuous.

(* ... render: every node keeps its uuid, text and names; every reference comes out with an
   identifier, and a reference that had one keeps exactly that one (all containers) *)
Theorem C13_render_given_verbatim : forall c n c4 r n2,
  render_pure c n = Ok (c4, r, n2) ->
  Forall2 (fun f f' => fst (fst f') = f_name f /\ snd (fst f') = f_uuid f /\ Forall2 node_agree (f_nodes f) (snd f'))
          (c_flows c) (r_flows r).
Proof. exact render_given_verbatim. Qed.
Print Assumptions C13_render_given_verbatim.

Example C13_render_given_verbatim_nonvacuous :
  NoDup (keys (c_gdict witness_cont)) /\
  exists c4 r n2, render_pure witness_cont 2 = Ok (c4, r, n2) /\ r_groups r = [(g_name, Some (Fresh 2))].
Proof. exact render_twice_nonvacuous. Qed.
Print Assumptions C13_render_given_verbatim_nonvacuous.

(* render IS that pure function of (container, counter) *)
Theorem C13_render_is_pure : forall c s,
  render c s = match render_pure c (s_next s) with
               | Err e => (s, Err e)
               | Ok (c4, r, n2) => (with_next s n2, Ok (c4, r))
               end.
Proof. exact render_is_pure. Qed.
Print Assumptions C13_render_is_pure.
