(* C04 — flow JSON -> sheet -> flow JSON preserves behaviour (through real files).
   Equivalence "for all contact input sequences" between the flow of a sugared sheet and
   the flow of its desugared twin is discharged by theorem for every pair the checker
   accepts; the quantifier over sheets is discharged per generated twin pair. *)
From Coq Require Import List NArith Bool.
From RPFT Require Import Base.Sexp Base.SexpEq Flow.Lts Flow.Flow Flow.FlowFacts.
Import ListNotations.

Theorem C04_bisim_check_sound : forall f g,
  bisim_check f g = true -> forall t, traces f t <-> traces g t.
Proof. exact bisim_check_sound. Qed.
Print Assumptions C04_bisim_check_sound.

Theorem C04_sim_check_sound : forall lm f g,
  sim_check lm f g = true ->
  forall t, traces f t -> exists t', traces g t' /\ Forall2 (ematch sexp lm) t t'.
Proof. exact sim_check_sound. Qed.
Print Assumptions C04_sim_check_sound.

(* ------------------------------------------------------------------------------------------------
   The export side: what the repairs of the export findings (findings.d/C04.json, design.d/FIX_*.md)
   achieve, on the model of the exporter (Exp/ToRows.v, tied to FlowContainer.to_rows by C17's
   correspondence) for ALL flows.  The model mirrors the finding's behaviour and the repaired one,
   selected by probes regenerated from the tree under check (translator/tables_c04.py):
   [..._repaired] theorems have the probe as premise, [..._witness] theorems are decided by it
   (if probe then the repaired outcome else the recorded defect). *)
From RPFT Require Import Base.PyStr Base.Result Gen.Tables Exp.ToRows Exp.ToRowsFixFacts Exp.EdgePadding.
From RPFT Require Import Cell.Cell Row.Ty Row.FlowRow Row.FlowRowFacts Row.WebhookHeadersFacts.

(* ---- group-split-without-cases: the export of a router node no longer fails *)
Theorem C04_switch_node_rows_total_repaired :
  group_split_without_cases_exports = true ->
  forall (U : Type) (n : node U) (r : srouter U) sn (pe : edge U (tid U)),
    n_kind n = NRouter U KSwitch r -> n_actions n = [] -> group_split_wf U r = true ->
    exists row, initiate_row_models n sn pe = Ok [row] /\ r_id row = TNode (n_uuid n) sn /\ r_edges row = [pe].
Proof. intros H U. exact (switch_node_rows_total_repaired U H). Qed.
Print Assumptions C04_switch_node_rows_total_repaired.

Theorem C04_group_split_witness :
  if group_split_without_cases_exports
  then rmap (map (fun r => r_type r)) (to_rows N.eqb false w_group_split_flow)
       = Ok [f_split_by_group; f_send_message]
  else to_rows N.eqb false w_group_split_flow = Err ECrash.
Proof. exact group_split_witness. Qed.
Print Assumptions C04_group_split_witness.

(* ---- split-result-name-lost: for every flow, every split row of the sheet carries the result name of its node *)
Theorem C04_to_rows_keeps_save_name_repaired :
  split_rows_carry_save_name = true ->
  forall (U : Type) (ueqb : U -> U -> bool) nb (nodes : list (node U)) rows, to_rows ueqb nb nodes = Ok rows ->
    forall r, In r rows -> is_split_type (r_type r) = true ->
      exists n s, In n nodes /\ assoc_str f_node_uuid (r_pay r) = Some (PU (n_uuid n))
                  /\ split_result U n = Some s /\ assoc_str f_save_name (r_pay r) = Some (PS s).
Proof. intros H U ueqb. exact (to_rows_keeps_save_name_repaired U ueqb H). Qed.
Print Assumptions C04_to_rows_keeps_save_name_repaired.

Theorem C04_save_name_witness :
  rmap (map (fun r => assoc_str f_save_name (r_pay r))) (to_rows N.eqb false w_result_flow)
  = Ok [ (if split_rows_carry_save_name then Some (PS w_res) else None); None ].
Proof. exact save_name_witness. Qed.
Print Assumptions C04_save_name_witness.

(* ---- cases-sharing-a-category: one pair per case, in case order *)
Theorem C04_switch_pairs_one_per_case_repaired :
  pairs_follow_cases = true ->
  forall (U : Type) (ueqb : U -> U -> bool) (r : srouter U) last prs, switch_pairs ueqb r last = Ok prs ->
    exists cps rest, prs = cps ++ rest
      /\ Forall2 (pair_of_case U ueqb r last (all_categories r))
                 (filter (has_category U ueqb (all_categories r)) (sw_cases r)) cps
      /\ (rest = noresp_pairs r last
          \/ rest = (c_dest (sw_default r), {| e_from := last; e_cond := no_cond |}) :: noresp_pairs r last).
Proof. intros H U ueqb. exact (switch_pairs_one_per_case_repaired U ueqb H). Qed.
Print Assumptions C04_switch_pairs_one_per_case_repaired.

Theorem C04_cases_sharing_witness :
  rmap (map (fun p => cd_value (e_cond (snd p)))) (switch_pairs N.eqb w_shared_router TStart)
  = Ok (if pairs_follow_cases then [PS w_yes; PS w_maybe; PS w_ok; PS []] else [PS w_yes; PS w_maybe; PS []]).
Proof. exact cases_sharing_witness. Qed.
Print Assumptions C04_cases_sharing_witness.

(* ---- unconnected-non-default-category: no edge of an exported node is lost *)
Theorem C04_to_rows_keeps_conditions :
  forall (U : Type) (ueqb : U -> U -> bool), (forall a b, ueqb a b = true <-> a = b) ->
  forall nb (nodes : list (node U)) st rows,
  to_rows_state U ueqb nodes = Ok st -> to_rows ueqb nb nodes = Ok rows ->
  forall m, is_node U ueqb nodes m -> In (n_uuid m) (st_done st) ->
  exists sn prs, short_name m = Ok sn /\ exit_edge_pairs ueqb m (last_row_id m sn) = Ok prs
    /\ forall p, In p prs -> kept U (node_keep U m) p = true -> In (e_cond (snd p)) (conds_of U rows).
Proof. exact to_rows_keeps_conditions. Qed.
Print Assumptions C04_to_rows_keeps_conditions.

Theorem C04_no_case_is_lost_repaired :
  loose_exit_rows = true -> pairs_follow_cases = true ->
  forall (U : Type) (ueqb : U -> U -> bool), (forall a b, ueqb a b = true <-> a = b) ->
  forall nb (nodes : list (node U)) st rows, to_rows_state U ueqb nodes = Ok st -> to_rows ueqb nb nodes = Ok rows ->
  forall m (r : srouter U), is_node U ueqb nodes m -> In (n_uuid m) (st_done st) -> n_kind m = NRouter U KSwitch r ->
  forall k c cd, In k (sw_cases r) -> case_category U ueqb (all_categories r) k = Some c ->
    case_cond r k c = Ok cd -> cond_blank cd = false -> In cd (conds_of U rows).
Proof. intros H1 H2 U ueqb Hs. exact (no_case_is_lost_repaired U ueqb Hs H1 H2). Qed.
Print Assumptions C04_no_case_is_lost_repaired.

Theorem C04_unconnected_case_witness :
  rmap (map (fun r => (r_id r, r_type r, map (fun e => cd_value (e_cond e)) (r_edges r)))) (to_rows N.eqb false w_unconnected_flow)
  = Ok (if loose_exit_rows then w_unconnected_rows_repaired else w_unconnected_rows_defect).
Proof. exact unconnected_case_witness. Qed.
Print Assumptions C04_unconnected_case_witness.

Example C04_no_case_is_lost_nonvacuous :
  exists st rows, to_rows_state N N.eqb w_unconnected_flow = Ok st /\ to_rows N.eqb false w_unconnected_flow = Ok rows
                  /\ map (fun n => match find_node N.eqb w_unconnected_flow (n_uuid n) with Some _ => true | None => false end)
                         w_unconnected_flow = [true; true]
                  /\ st_done st = [1%N; 2%N].
Proof. exact no_case_is_lost_nonvacuous. Qed.
Print Assumptions C04_no_case_is_lost_nonvacuous.

(* ---- padded-edge-columns: the blank edge cells of a rectangular sheet are inert for every kind of row *)
Theorem C04_exported_edges_survive_padding_repaired :
  blank_edges_dropped = true ->
  forall (U : Type) k w (es : list (edge U str)), es <> [] -> Forall (fun e => nonempty (e_from e) = true) es ->
    applied_edges k (pad w es) = es.
Proof. intros H U. exact (exported_edges_survive_padding_repaired U H). Qed.
Print Assumptions C04_exported_edges_survive_padding_repaired.

Theorem C04_padded_goto_witness :
  applied_edges KOther (pad 2 [w_goto_edge]) = if blank_edges_dropped then [w_goto_edge] else [w_goto_edge; blank_edge].
Proof. exact padded_goto_witness. Qed.
Print Assumptions C04_padded_goto_witness.

(* ---- webhook-headers: packed into one cell the headers are inside the proved row round trip *)
Theorem C04_webhook_headers_witness :
  if webhook_headers_packed
  then flow_dom (hook_row w_headers) = true
       /\ match flow_unparse (hook_row w_headers) false with
          | Ok cells => headers_cell cells = Some w_headers_cell /\ spread_cells cells = []
                        /\ flow_parse cells = Ok (hook_row w_headers)
          | Err _ => False
          end
  else flow_dom (hook_row w_headers) = false
       /\ match flow_unparse (hook_row w_headers) false with
          | Ok cells => headers_cell cells = None /\ List.length (spread_cells cells) = 4%nat
                        /\ is_ok (flow_parse cells) = false
          | Err _ => False
          end.
Proof. exact webhook_headers_witness. Qed.
Print Assumptions C04_webhook_headers_witness.

Theorem C04_webhook_row_roundtrip : forall hs,
  flow_dom (hook_row hs) = true ->
  exists cells, flow_unparse (hook_row hs) false = Ok cells /\ flow_parse cells = Ok (hook_row hs).
Proof. exact webhook_row_roundtrip. Qed.
Print Assumptions C04_webhook_row_roundtrip.

(* ---- has_group-edge-outside-group-split (compile side): a has_group case made from an edge always names its group *)
From RPFT Require Import Exp.CaseArgs.
Theorem C04_has_group_edge_arguments_repaired :
  has_group_edges_by_name = true ->
  forall row_type cond_type value,
    edge_case_type row_type cond_type = t_has_group ->
    edge_case_arguments row_type cond_type value = [None; Some value].
Proof. exact has_group_edge_arguments_repaired. Qed.
Print Assumptions C04_has_group_edge_arguments_repaired.

Theorem C04_has_group_edge_witness :
  recorded_group_name (edge_case_type t_wait_for_response t_has_group)
                      (edge_case_arguments t_wait_for_response t_has_group w_my_group)
  = if has_group_edges_by_name then Some (Some w_my_group) else None.
Proof. exact has_group_edge_witness. Qed.
Print Assumptions C04_has_group_edge_witness.

(* ---- webhook-body-shadowed (parse side): in a call_webhook row `webhook.body` and `message_text` denote the
   same field; the exporter writes the body under `webhook.body` and the rectangular sheet gives the row a blank
   `message_text` cell.  Over E2's model of parse_row (Row/RowParse.v: rekey_put follows the tree through the probe
   rekey_blank_keeps, translator/tables_rowfix.py). *)
From RPFT Require Import Base.ODict Row.RowParse Row.FlowHeaderFacts Row.BlankAliasFacts Row.WebhookBodyFacts.

(* the full statement — a blank cell under a header whose field already has a cell earlier in the row does not
   change what the row parses to — holds on the repaired tree and is refuted by the row of the finding otherwise *)
Theorem C04_blank_alias_inert_decided :
  if rekey_blank_keeps
  then forall l1 l2 h h0 v0 k,
         h <> cx_sw_column FlowHeaderFacts.flow_cx ->
         In (h0, v0) l1 ->
         ctx_h2f flow_ctx (l1 ++ l2) h0 = Ok k ->
         ctx_h2f flow_ctx (l1 ++ l2) h = Ok k ->
         flow_parse (l1 ++ (h, []) :: l2) = flow_parse (l1 ++ l2)
  else ~ (forall l1 l2 h h0 v0 k,
         h <> cx_sw_column FlowHeaderFacts.flow_cx ->
         In (h0, v0) l1 ->
         ctx_h2f flow_ctx (l1 ++ l2) h0 = Ok k ->
         ctx_h2f flow_ctx (l1 ++ l2) h = Ok k ->
         flow_parse (l1 ++ (h, []) :: l2) = flow_parse (l1 ++ l2)).
Proof. exact blank_alias_inert_decided. Qed.
Print Assumptions C04_blank_alias_inert_decided.

(* any row model, with or without row context (the statement the flow instance above is made from) *)
Theorem C04_blank_alias_inert_repaired :
  rekey_blank_keeps = true ->
  forall rm l1 l2 h h0 v0 k,
    same_type_cell (rm_ctx rm) (l1 ++ (h, []) :: l2) (l1 ++ l2) ->
    In (h0, v0) l1 ->
    ctx_h2f (rm_ctx rm) (l1 ++ l2) h0 = Ok k ->
    ctx_h2f (rm_ctx rm) (l1 ++ l2) h = Ok k ->
    parse_row rm (l1 ++ (h, []) :: l2) = parse_row rm (l1 ++ l2).
Proof. intros E rm l1 l2 h h0 v0 k. exact (parse_blank_alias_inert rm l1 l2 h h0 v0 k E). Qed.
Print Assumptions C04_blank_alias_inert_repaired.

(* the row of the finding: it always parses; its body is the body written iff the tree keeps the earlier value *)
Theorem C04_webhook_body_witness :
  is_ok (flow_parse w_row_exported) = true
  /\ body_of (flow_parse w_row_plain) = Some [98; 111; 100; 121; 32; 111; 110; 101]%N
  /\ body_of (flow_parse w_row_exported) = Some (if rekey_blank_keeps then [98; 111; 100; 121; 32; 111; 110; 101]%N else []).
Proof. exact webhook_body_witness. Qed.
Print Assumptions C04_webhook_body_witness.

(* the row the exporter model writes for a call_webhook node (unparse_row on the regenerated FlowRowModel), padded
   with the blank message_text cell of the sheet, read back *)
Theorem C04_webhook_export_padded_witness :
  match flow_unparse (hook_row []) false with
  | Ok cells =>
      oget str_eqb cells (s_webhook ++ [46%N] ++ s_body) = Some [98%N] /\ oget str_eqb cells w_header = None
      /\ flow_parse cells = Ok (hook_row [])
      /\ (if rekey_blank_keeps then flow_parse (padded_with_message_text cells) = Ok (hook_row [])
          else is_ok (flow_parse (padded_with_message_text cells)) = true
               /\ body_of (flow_parse (padded_with_message_text cells)) = Some [])
  | Err _ => False
  end.
Proof. exact webhook_export_padded_witness. Qed.
Print Assumptions C04_webhook_export_padded_witness.

(* where the blank cell stands does not matter for the body once the tree keeps the earlier value (the blank cell
   BEFORE the body never mattered, on either tree) *)
Theorem C04_webhook_body_blank_first : body_of (flow_parse w_row_blank_first) = Some [98; 111; 100; 121; 32; 111; 110; 101]%N.
Proof. exact webhook_body_blank_first. Qed.
Print Assumptions C04_webhook_body_blank_first.

(* ------------------------------------------------------------------------------------------------
   The exported rows MEAN the flow (Exp/Means*.v).  For every flow of a family (MeansFamily.exportable, decidable):
   if the exporter model gives rows, the rows have a reference meaning (Flow/RowSem.v: rowsem of Means.abs_rows, the
   reading of exported rows that harness/rowref.py writes; compared on every generated export, engine 104) and that
   reference flow has exactly the traces of the flow (Means.flow_of), labels matched up to the names the sheet does not
   fix (wildcards on the reference side).  [means ueqb ustr numbered strip ns] is that statement for one flow.
   Uuids are an abstract type with a decidable equality, rendered by any injective function with non-empty values. *)
From RPFT Require Import Flow.RowSem Exp.Means Exp.MeansFamily Exp.MeansTheorem.

(* stage 1: flows of nodes without routers (chains, joins, cycles), any number of actions per node (merged through the
   node id; one action per node with strip_uuids) *)
Theorem C04_to_rows_means_flow_basic_partial :
  forall (U : Type) (ueqb : U -> U -> bool), (forall a b, ueqb a b = true <-> a = b) ->
  forall (ustr : U -> str), (forall a b, ustr a = ustr b -> a = b) -> (forall a, ustr a <> []) ->
  forall numbered strip_uuids (ns : list (node U)),
    exportable U ueqb ns = true -> basic_only U ns = true -> (strip_uuids = true -> single_rows U ns = true) ->
    forall rows, to_rows ueqb numbered ns = Ok rows ->
    exists ref, rowsem nab (abs_rows U ustr strip_uuids rows) = Some ref
      /\ (forall t, traces (flow_of U ustr ns) t -> exists t', traces ref t' /\ Forall2 (ematch sexp (fun a b => smatch b a)) t t')
      /\ (forall t, traces ref t -> exists t', traces (flow_of U ustr ns) t' /\ Forall2 (ematch sexp smatch) t t').
Proof. exact means_basic. Qed.
Print Assumptions C04_to_rows_means_flow_basic_partial.

(* non-vacuity: a flow with a join and a cycle (1 -> 2 -> 3 -> 2) and a two-action node is in the family, exports to five rows
   (the back edge is a go_to row, the second action a merged row) and its reference meaning has three nodes *)
Example C04_to_rows_means_flow_nonvacuous :
  exportable N N.eqb ex_cycle = true /\ basic_only N ex_cycle = true
  /\ export_skel ex_cycle = Ok ex_cycle_rows
  /\ ref_size ex_cycle = Some 3%nat.
Proof. exact ex_cycle_exportable. Qed.
Print Assumptions C04_to_rows_means_flow_nonvacuous.

(* THE FAMILY (MeansFamily.exportable, decidable; design.d/C04.md "Exporter means the flow"): every node is
     - a node without router with >= 1 actions of the sheet vocabulary, each of which the reference payload reading gives back
       (action_ok: e.g. no empty attachment, one group per group action), or
     - a switch router without actions: wait_for_response (with or without timeout / No Response category), split_by_value,
       split_by_group; tests with at most one argument (none for the no-argument tests), pairwise different; every case has a
       category of its own list; categories with distinct uuids and (outside group splits) distinct names; cases whose
       category leads nowhere are allowed (loose_exit rows), or
     - a random router without actions (buckets with distinct non-empty names), or
     - an enter-flow / webhook / airtime node in the shape the sheet rows stand for;
   node uuids are distinct; and - the one dynamic condition, which is the open finding case-order-follows-row-order - in the
   exported sheet the edges carrying the cases of each router occur in the order of the cases (order_ok, computed on the export).
   Premises on the tree: the four export repairs (regenerated probes).  With strip_uuids: one action per node.
   NOT covered (what is missing for the full statement): routers whose case edges the depth-first order permutes (open finding);
   has_group tests outside group splits (RowSem reads them with one argument); tests with two arguments, a case on the default /
   No Response category, two categories of one name (not expressible / not distinguishable in the sheet format); switch routers
   with actions; multi-action nodes under strip_uuids (their rows become a chain of nodes: trace-equal, not proved). *)
Theorem C04_to_rows_means_flow_partial :
  loose_exit_rows = true -> pairs_follow_cases = true -> split_rows_carry_save_name = true -> group_split_without_cases_exports = true ->
  forall (U : Type) (ueqb : U -> U -> bool), (forall a b, ueqb a b = true <-> a = b) ->
  forall (ustr : U -> str), (forall a b, ustr a = ustr b -> a = b) -> (forall a, ustr a <> []) ->
  forall numbered strip_uuids (ns : list (node U)),
    exportable U ueqb ns = true -> (strip_uuids = true -> single_rows U ns = true) ->
    forall rows, to_rows ueqb numbered ns = Ok rows ->
    exists ref, rowsem nab (abs_rows U ustr strip_uuids rows) = Some ref
      /\ (forall t, traces (flow_of U ustr ns) t -> exists t', traces ref t' /\ Forall2 (ematch sexp (fun a b => smatch b a)) t t')
      /\ (forall t, traces ref t -> exists t', traces (flow_of U ustr ns) t' /\ Forall2 (ematch sexp smatch) t t').
Proof. exact to_rows_means_flow_partial. Qed.
Print Assumptions C04_to_rows_means_flow_partial.

(* non-vacuity: a wait_for_response router with a timeout, three cases (one leading nowhere: loose_exit row), a join, a cycle
   through the default branch, a random router with an unconnected bucket and a webhook node: in the family, nine rows, five
   reference nodes, and the statement evaluates to "holds" (4) in both export modes *)
Example C04_to_rows_means_flow_routers_nonvacuous :
  if all_repairs then
    exportable N N.eqb ex_router = true /\ export_skel ex_router = Ok ex_router_rows /\ ref_size ex_router = Some 5%nat
    /\ means_check N N.eqb ustrN false false ex_router = 4%N /\ means_check N N.eqb ustrN true true ex_router = 4%N
  else True.
Proof. exact ex_router_exportable. Qed.
Print Assumptions C04_to_rows_means_flow_routers_nonvacuous.

(* COROLLARY: the round trip over the two models.  On the intersection of the family with the fragment of C02
   (Comp/Refine.v: fragb, a premise: whatever the refinement theorem of C02 covers - since comp2 also named categories, split_random
   and rows merged through the node name; hence with or without strip_uuids, the `_nodeId` column being the row's node name), the
   flow the compiler model makes of the exported rows and the original flow are both trace-equal, labels matched up to the names the sheet does not fix, to one reference flow: the meaning of the rows.
   (Exp/MeansComp.v; only composes C04_to_rows_means_flow_partial with C02_compile_refines_rowsem_std.) *)
From RPFT Require Import Comp.Compile Comp.Refine Exp.MeansComp.
Theorem C04_roundtrip_model_partial :
  loose_exit_rows = true -> pairs_follow_cases = true -> split_rows_carry_save_name = true -> group_split_without_cases_exports = true ->
  compile_checks_node_uuids = true ->
  forall (U : Type) (ueqb : U -> U -> bool), (forall a b, ueqb a b = true <-> a = b) ->
  forall (ustr : U -> str), (forall a b, ustr a = ustr b -> a = b) -> (forall a, ustr a <> []) ->
  forall numbered strip_uuids (ns : list (ToRows.node U)) rows name f,
    exportable U ueqb ns = true -> (strip_uuids = true -> single_rows U ns = true) ->
    to_rows ueqb numbered ns = Ok rows -> fragb (crows_of U ustr strip_uuids rows) = true ->
    compile std_fresh name (crows_of U ustr strip_uuids rows) = Ok f ->
    exists ref, rowsem Means.nab (abs_rows U ustr strip_uuids rows) = Some ref
      /\ (forall t, traces (flow_of U ustr ns) t -> exists t', traces ref t' /\ Forall2 (ematch sexp (fun a b => smatch b a)) t t')
      /\ (forall t, traces ref t -> exists t', traces (flow_of U ustr ns) t' /\ Forall2 (ematch sexp smatch) t t')
      /\ (forall t, traces ref t -> exists t', traces f t' /\ Forall2 (ematch sexp smatch) t t')
      /\ (forall t, traces f t -> exists t', traces ref t' /\ Forall2 (ematch sexp (fun a b => smatch b a)) t t').
Proof. exact roundtrip_model_partial. Qed.
Print Assumptions C04_roundtrip_model_partial.

(* non-vacuity: message -> group split (member: on; otherwise back to the start: a cycle) -> message: in the family, in the
   fragment, and the compiler model makes a flow of three nodes of its exported rows *)
Example C04_roundtrip_model_nonvacuous : if all_repairs then rt_outcome true ex_rt = Some (true, true, 3%nat) else True.
Proof. exact ex_rt_facts. Qed.
Print Assumptions C04_roundtrip_model_nonvacuous.

(* the same with node names (no strip_uuids), and for the cycle whose third node has two actions (two rows, merged through the name) *)
Example C04_roundtrip_model_named_nonvacuous :
  if all_repairs then rt_outcome false ex_rt = Some (true, true, 3%nat) /\ rt_outcome false ex_cycle = Some (true, true, 3%nat) else True.
Proof. exact ex_rt_named_facts. Qed.
Print Assumptions C04_roundtrip_model_named_nonvacuous.
