(* C04 — flow JSON -> sheet -> flow JSON preserves behaviour (through real files).
   Equivalence "for all contact input sequences" between the flow of a sugared sheet and
   the flow of its desugared twin is discharged by theorem for every pair the checker
   accepts; the quantifier over sheets is discharged per generated twin pair. *)
From Coq Require Import List NArith Bool.
From RPFT Require Import Base.Sexp Base.SexpEq Flow.Lts Flow.Flow Flow.FlowFacts.
Import ListNotations.

Theorem C04_bisim_check_sound : forall f g,
  bisim_check f g = true -> forall t, traces f t <-> traces g t.
Proof. exact bisim_check_sound. Qed.
Print Assumptions C04_bisim_check_sound.

Theorem C04_sim_check_sound : forall lm f g,
  sim_check lm f g = true ->
  forall t, traces f t -> exists t', traces g t' /\ Forall2 (ematch sexp lm) t t'.
Proof. exact sim_check_sound. Qed.
Print Assumptions C04_sim_check_sound.
