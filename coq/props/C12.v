(* C12 — a template instantiated in bulk equals the same template instantiated row by row.
   Only property theorems here, each closed by [exact] and followed by Print Assumptions.
   [compile_one] (the compilation of one flow, E7) is universally quantified: every
   statement holds for every compiler whose only channel between instances is the state. *)
From Coq Require Import List NArith Bool Permutation.
From RPFT Require Import Base.Sexp Base.PyStr Base.ODict Base.Result Gen.Tables Cell.Cell
  Index.Args Index.ArgsFacts Index.Bulk Index.BulkFacts Index.BulkExamples Index.BulkHistory Index.BulkHistoryFacts
  Index.Alias Index.AliasFacts.
Import ListNotations.

(* 1. bulk = concatenation of the singles in data order: replacing a bulk row, anywhere in
   an index, by one row per ID gives the same flows dict, the same threaded state and the
   same error.  (IDs must be non-blank: see C12_blank_id_is_not_an_instance.) *)
Theorem C12_bulk_is_map :
  forall (D T F S E : Type) (compile_one : str -> T -> ctx D -> S -> result E (F * S))
         (reg : registry D T) pre (r : cfrow) post rows (a : list (str * F) * S),
  is_bulk r = true ->
  oget str_eqb (reg_sheets reg) (cf_data_sheet r) = Some rows ->
  Forall (fun id => id <> []) (okeys rows) ->
  paf_rows compile_one reg (pre ++ r :: post) a
  = paf_rows compile_one reg (pre ++ map (with_id r) (okeys rows) ++ post) a.
Proof. exact (@bulk_is_map). Qed.
Print Assumptions C12_bulk_is_map.

(* 1b. exactly one flow per data row, in data order, named <name> - <ID> *)
Theorem C12_bulk_one_flow_per_row :
  forall (D T F S E : Type) (compile_one : str -> T -> ctx D -> S -> result E (F * S))
         (reg : registry D T) (r : cfrow) rows st fl st',
  is_bulk r = true ->
  oget str_eqb (reg_sheets reg) (cf_data_sheet r) = Some rows ->
  Forall (fun id => id <> []) (okeys rows) -> NoDup (okeys rows) ->
  paf_row compile_one reg ([], st) r = Ok (fl, st') ->
  okeys fl = map (fun id => str_or (cf_new_name r) (cf_sheet r) ++ flow_name_sep_single ++ id) (okeys rows).
Proof. exact (@bulk_one_flow_per_row). Qed.
Print Assumptions C12_bulk_one_flow_per_row.

(* 1c. the instances of a bulk row are, one for one, the instances of the rows naming the IDs *)
Theorem C12_bulk_plan :
  forall (D T E : Type) (reg : registry D T) (r : cfrow) rows,
  is_bulk r = true ->
  oget str_eqb (reg_sheets reg) (cf_data_sheet r) = Some rows ->
  Forall (fun id => id <> []) (okeys rows) ->
  @plan_row D T E reg r = map (fun id => prepare_row reg (with_id r id) id) (okeys rows)
  /\ @plan_row D T E reg r = flat_map (fun id => plan_row reg (with_id r id)) (okeys rows).
Proof. exact (@bulk_plan). Qed.
Print Assumptions C12_bulk_plan.

(* 1d. the separator measured on the bulk path is the one measured on the single path *)
Theorem C12_one_separator : flow_name_sep_bulk = flow_name_sep_single.
Proof. exact name_sep_same. Qed.
Print Assumptions C12_one_separator.

(* 2. template arguments: complete characterisation, then the named clauses *)
Theorem C12_args_characterised :
  forall (D : Type) sheets defs args (c c' : ctx D),
  map_template_arguments_to_context sheets defs args c = Ok c' <->
  NoDup (map ad_name defs) /\ (forall n, In n (map ad_name defs) -> oget str_eqb c n = None)
  /\ exists l, bound_all sheets (pairs defs args) = Some l /\ c' = c ++ l.
Proof. exact (@mtac_ok_iff). Qed.
Print Assumptions C12_args_characterised.

Theorem C12_args_positional :
  forall (D : Type) sheets defs args (c c' : ctx D) i d,
  map_template_arguments_to_context sheets defs args c = Ok c' ->
  nth_error defs i = Some d ->
  exists v, bound sheets d (nth i args (Str [])) = Some v
            /\ oget str_eqb c' (ad_name d) = Some v
            /\ nth_error c' (length c + i) = Some (ad_name d, v).
Proof. exact (@args_positional). Qed.
Print Assumptions C12_args_positional.

Theorem C12_given_argument_wins :
  forall (D : Type) sheets defs args (c c' : ctx D) i d,
  map_template_arguments_to_context sheets defs args c = Ok c' ->
  nth_error defs i = Some d -> is_blank (nth i args (Str [])) = false ->
  str_eqb (ad_type d) sheet_type_kw = false ->
  oget str_eqb c' (ad_name d) = Some (VArg (nth i args (Str []))).
Proof. exact (@given_argument_wins). Qed.
Print Assumptions C12_given_argument_wins.

Theorem C12_blank_takes_default :
  forall (D : Type) sheets defs args (c c' : ctx D) i d,
  map_template_arguments_to_context sheets defs args c = Ok c' ->
  nth_error defs i = Some d -> nth i args (Str []) = Str [] ->
  str_eqb (ad_type d) sheet_type_kw = false ->
  oget str_eqb c' (ad_name d) = Some (VArg (Str (ad_default d))) /\ ad_default d <> [].
Proof. exact (@blank_takes_default). Qed.
Print Assumptions C12_blank_takes_default.

Theorem C12_sheet_arg_binds_rows :
  forall (D : Type) sheets defs args (c c' : ctx D) i d,
  map_template_arguments_to_context sheets defs args c = Ok c' ->
  nth_error defs i = Some d -> str_eqb (ad_type d) sheet_type_kw = true ->
  exists s rows, arg_value d (nth i args (Str [])) = Str s /\ s <> []
                 /\ oget str_eqb sheets s = Some rows
                 /\ oget str_eqb c' (ad_name d) = Some (VRows rows).
Proof. exact (@sheet_arg_binds_rows). Qed.
Print Assumptions C12_sheet_arg_binds_rows.

Theorem C12_context_kept :
  forall (D : Type) sheets defs args (c c' : ctx D),
  map_template_arguments_to_context sheets defs args c = Ok c' ->
  okeys c' = okeys c ++ map ad_name defs
  /\ forall k, ~ In k (map ad_name defs) -> oget str_eqb c' k = oget str_eqb c k.
Proof. exact (@context_kept). Qed.
Print Assumptions C12_context_kept.

Theorem C12_missing_required_is_error :
  forall (D : Type) sheets defs args (c : ctx D) i d,
  nth_error defs i = Some d -> nth i args (Str []) = Str [] -> ad_default d = [] ->
  exists e, map_template_arguments_to_context sheets defs args c = Err e.
Proof. exact (@missing_required_is_error). Qed.
Print Assumptions C12_missing_required_is_error.

Theorem C12_doubly_defined_is_error :
  forall (D : Type) sheets defs args (c : ctx D) d,
  In d defs -> ocontains str_eqb c (ad_name d) = true ->
  exists e, map_template_arguments_to_context sheets defs args c = Err e.
Proof. exact (@doubly_defined_is_error). Qed.
Print Assumptions C12_doubly_defined_is_error.

Theorem C12_duplicate_declaration_is_error :
  forall (D : Type) sheets defs args (c : ctx D),
  ~ NoDup (map ad_name defs) ->
  exists e, map_template_arguments_to_context sheets defs args c = Err e.
Proof. exact (@duplicate_declaration_is_error). Qed.
Print Assumptions C12_duplicate_declaration_is_error.

Theorem C12_unknown_sheet_is_error :
  forall (D : Type) sheets defs args (c : ctx D) i d s,
  nth_error defs i = Some d -> str_eqb (ad_type d) sheet_type_kw = true ->
  arg_value d (nth i args (Str [])) = Str s -> oget str_eqb sheets s = None ->
  exists e, map_template_arguments_to_context sheets defs args c = Err e.
Proof. exact (@unknown_sheet_is_error). Qed.
Print Assumptions C12_unknown_sheet_is_error.

(* as coded: arguments beyond the declared ones are dropped (warning), not an error *)
Theorem C12_extra_args_ignored :
  forall (D : Type) sheets defs args extra (c : ctx D),
  (length defs <= length args)%nat ->
  map_template_arguments_to_context sheets defs (args ++ extra) c
  = map_template_arguments_to_context sheets defs args c.
Proof. exact (@extra_args_ignored). Qed.
Print Assumptions C12_extra_args_ignored.

(* 3. isolation: parse_all_flows = compute every instance (name, table, context) from the
   registries and the index rows alone — [plan] takes neither the compiler, nor the state,
   nor the flows dict — then compile them in order *)
Theorem C12_instance_isolation :
  forall (D T F S E : Type) (compile_one : str -> T -> ctx D -> S -> result E (F * S))
         (reg : registry D T) rows (a : list (str * F) * S),
  paf_rows compile_one reg rows a = run_plan compile_one (plan reg rows) a.
Proof. exact (@instance_isolation). Qed.
Print Assumptions C12_instance_isolation.

(* the context of an instance is determined by (data row, declarations, arguments, sheets) *)
Theorem C12_instance_context :
  forall (D T E : Type) (reg : registry D T) sn ds id args nn name table (c : ctx D),
  @prepare D T E reg sn ds id args nn = Ok (name, table, c) ->
  exists defs, oget str_eqb (reg_templates reg) sn = Some (table, defs) /\
  ((nonblank ds && nonblank id = true /\
    exists rows row, oget str_eqb (reg_sheets reg) ds = Some rows /\ oget str_eqb rows id = Some row
      /\ name = str_or nn sn ++ flow_name_sep_single ++ id
      /\ map_template_arguments_to_context (reg_sheets reg) defs args (ctx_of_row row) = Ok c)
   \/
   (nonblank ds && nonblank id = false /\ name = str_or nn sn
      /\ map_template_arguments_to_context (reg_sheets reg) defs args [] = Ok c)).
Proof. exact (@prepare_spec). Qed.
Print Assumptions C12_instance_context.

(* every order of the index rows prepares the same instances *)
Theorem C12_plan_permutation :
  forall (D T E : Type) (reg : registry D T) rows rows',
  Permutation rows rows' -> Permutation (@plan D T E reg rows) (plan reg rows').
Proof. exact (@plan_permutation). Qed.
Print Assumptions C12_plan_permutation.

(* 3b. histories.  A ContentIndexParser is a long-lived object: one run makes many calls on it (a parse_all_flows pass,
   a get_node_group call per insert_as_block row).  The model's step function hands the registries back unchanged, so a
   sequence of calls run through it yields, call by call, the value of the pure function — whatever was called before,
   in whatever order, however often.  (Strengthening after wave 3: the correspondence runs the same call sequences through
   the extracted [run_calls] and through ONE real parser.) *)
Theorem C12_calls_history_free :
  forall (D T F S E : Type) (compile_one : str -> T -> ctx D -> S -> result E (F * S)) (st0 : S)
         (reg : registry D T) (cs : list call),
  run_calls compile_one st0 reg cs = (reg, map (do_call compile_one st0 reg) cs).
Proof. exact (@run_calls_is_map). Qed.
Print Assumptions C12_calls_history_free.

Theorem C12_call_outcome_independent_of_history :
  forall (D T F S E : Type) (compile_one : str -> T -> ctx D -> S -> result E (F * S)) (st0 : S)
         (reg : registry D T) (h1 h2 : list call) (c : call) (t1 t2 : list call),
  nth_error (snd (run_calls compile_one st0 reg (h1 ++ c :: t1))) (length h1)
  = nth_error (snd (run_calls compile_one st0 reg (h2 ++ c :: t2))) (length h2).
Proof. exact (@call_history_free). Qed.
Print Assumptions C12_call_outcome_independent_of_history.

(* 3c. an instance inside ANY index equals the instance compiled alone: for every compiler whose flow does not depend
   on the container state it is handed ("equal up to invented UUIDs"), the flow that an index row naming its data row
   leaves in the flows dict — after whatever rows, in whatever dict and state — is the flow the row gives in an index of
   its own.  (With C12_bulk_is_map this covers the instances of bulk rows.) *)
Theorem C12_instance_alone :
  forall (D T F S E : Type) (comp : str -> T -> ctx D -> result E F) (next : S -> S)
         (reg : registry D T) (pre : list cfrow) (r : cfrow) (a a1 a2 : list (str * F) * S) st n t c,
  names_one r ->
  @prepare_row D T E reg r (cf_data_row_id r) = Ok (n, t, c) ->
  paf_rows (blind comp next) reg (pre ++ [r]) a = Ok a1 ->
  parse_all_flows (blind comp next) reg [r] st = Ok a2 ->
  oget str_eqb (fst a1) n = oget str_eqb (fst a2) n.
Proof. exact (@instance_alone). Qed.
Print Assumptions C12_instance_alone.

Example C12_history_nonvacuous : history_example.
Proof. exact history_example_holds. Qed.
Print Assumptions C12_history_nonvacuous.

(* 7. (wave 4) instances that CHANGE their values in place — {{ pair.pop() }}, {{ items.append('Z') or '' }},
   {% set _ = x.sort() %} ... — with the lists as OBJECTS on a heap (Index/Alias.v).  Under every policy that gives an
   instance objects of its own (its context copied, a literal cell parsed into new lists every time) the instances of a
   run, in one process, yield one by one what each yields ALONE in an empty process; the run ends at the first one
   that fails.  For every list of operations, every process state. *)
Theorem C12_mutating_instances_isolated :
  forall (pol : policy), policy_fresh pol = true ->
  forall (is : list minst) (st : pstate), run_all pol st is = cut (map run_alone is).
Proof. exact run_all_isolated. Qed.
Print Assumptions C12_mutating_instances_isolated.

(* 7b. one instance, after whatever history of the process: what it yields alone; after one history what it yields
   after another *)
Theorem C12_mutating_instance_state_free :
  forall (pol : policy) (st : pstate) (i : minst), policy_fresh pol = true -> snd (run_inst pol st i) = run_alone i.
Proof. exact instance_state_free. Qed.
Print Assumptions C12_mutating_instance_state_free.

Theorem C12_mutating_instance_history_free :
  forall (pol : policy) (st1 st2 : pstate) (i : minst),
  policy_fresh pol = true -> snd (run_inst pol st1 i) = snd (run_inst pol st2 i).
Proof. exact instance_history_free. Qed.
Print Assumptions C12_mutating_instance_history_free.

(* 7c. the policy the code has, measured on this run (Gen/Tables.v: instance_context_private, literal_lists_fresh),
   is such a policy: the model of the code as it is isolates its instances *)
Theorem C12_as_coded_instances_isolated :
  forall (is : list minst) (st : pstate), run_all as_coded st is = cut (map run_alone is).
Proof. exact as_coded_isolated. Qed.
Print Assumptions C12_as_coded_instances_isolated.

(* 7d. neither switch of the policy can be dropped: with the lists of a literal cell kept by cell text, and with the
   registry's objects handed out uncopied, some run is NOT its instances alone *)
Theorem C12_shared_literal_lists_leak :
  exists is, run_all (mk_policy true false) ps_empty is <> cut (map run_alone is).
Proof. exact sharing_literals_leaks. Qed.
Print Assumptions C12_shared_literal_lists_leak.

Theorem C12_shared_context_objects_leak :
  exists is, run_all (mk_policy false true) ps_empty is <> cut (map run_alone is).
Proof. exact sharing_context_leaks. Qed.
Print Assumptions C12_shared_context_objects_leak.

Example C12_mutation_nonvacuous : alias_example.
Proof. exact alias_example_holds. Qed.
Print Assumptions C12_mutation_nonvacuous.

(* inserted blocks go through the same preparation (own data row, own arguments, empty
   new_name), and see nothing of the inserting flow's context *)
Theorem C12_block_is_prepare :
  forall (D T E : Type) (reg : registry D T) tn ds id args (i : inst D T),
  @prepare_block D T E reg tn ds id args = Ok i -> @prepare D T E reg tn ds id args [] = Ok i.
Proof. exact (@block_is_prepare). Qed.
Print Assumptions C12_block_is_prepare.

(* the hypothesis "IDs are non-blank" of 1 is necessary: the faithful model gives the data
   row whose ID is blank a flow named <name>, compiled in the EMPTY context *)
Theorem C12_blank_id_is_not_an_instance_refuted : blank_id_witness.
Proof. exact blank_id_witness_holds. Qed.
Print Assumptions C12_blank_id_is_not_an_instance_refuted.

(* the regenerated tables are what the model assumes *)
Theorem C12_tables_ok : c12_tables_ok = true.
Proof. exact c12_tables_ok_true. Qed.
Print Assumptions C12_tables_ok.

(* non-vacuity: concrete inputs satisfying the hypotheses with non-trivial outcomes *)
Example C12_args_nonvacuous : args_example.
Proof. exact args_example_holds. Qed.
Print Assumptions C12_args_nonvacuous.

Example C12_bulk_nonvacuous : bulk_example.
Proof. exact bulk_example_holds. Qed.
Print Assumptions C12_bulk_nonvacuous.
