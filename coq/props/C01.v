(* C01 — every compiled flow is a referentially closed, importable RapidPro definition.
   The checker run on every document the implementation produces decides EXACTLY the
   property's clauses (a)-(g); (h)/(i) are checked on the serialised text by the harness. *)
From Coq Require Import List NArith Bool.
From RPFT Require Import Base.Sexp Base.PyStr Flow.Flow Flow.Closed.
Import ListNotations.

Theorem C01_closedb_spec : forall G d, closedb G d = true <-> Closed G d.
Proof. exact closedb_spec. Qed.
Print Assumptions C01_closedb_spec.

Theorem C01_flow_closedb_spec : forall f, flow_closedb f = true <-> FlowClosed f.
Proof. exact flow_closedb_spec. Qed.
Print Assumptions C01_flow_closedb_spec.

Theorem C01_node_closedb_spec : forall f nd, node_closedb f nd = true <-> NodeClosed f nd.
Proof. exact node_closedb_spec. Qed.
Print Assumptions C01_node_closedb_spec.
