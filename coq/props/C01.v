(* C01 — every compiled flow is a referentially closed, importable RapidPro definition.
   The checker run on every document the implementation produces decides EXACTLY the
   property's clauses (a)-(g); (h)/(i) are checked on the serialised text by the harness. *)
From Coq Require Import List NArith Bool.
From RPFT Require Import Base.Sexp Base.PyStr Gen.Tables Flow.Flow Flow.Closed Flow.NodeIdCheck Flow.NodeIdCheckFacts.
Import ListNotations.

Theorem C01_closedb_spec : forall G d, closedb G d = true <-> Closed G d.
Proof. exact closedb_spec. Qed.
Print Assumptions C01_closedb_spec.

Theorem C01_flow_closedb_spec : forall f, flow_closedb f = true <-> FlowClosed f.
Proof. exact flow_closedb_spec. Qed.
Print Assumptions C01_flow_closedb_spec.

Theorem C01_node_closedb_spec : forall f nd, node_closedb f nd = true <-> NodeClosed f nd.
Proof. exact node_closedb_spec. Qed.
Print Assumptions C01_node_closedb_spec.

(* the node-uuid validation of FlowParser._compile_flow (model Flow/NodeIdCheck.v, tied to the code by
   differential execution): it passes exactly the duplicate-free lists, and the id it names is a repeated one *)
Theorem C01_node_id_check_spec : forall us, first_repeated [] us = None <-> NoDup us.
Proof. exact node_id_check_spec. Qed.
Print Assumptions C01_node_id_check_spec.

Theorem C01_node_id_check_names_repeated : forall us u,
  first_repeated [] us = Some u -> exists l1 l2, us = l1 ++ u :: l2 /\ In u l1 /\ NoDup l1.
Proof. exact node_id_check_names_repeated. Qed.
Print Assumptions C01_node_id_check_names_repeated.

Example C01_node_id_check_nonvacuous :
  first_repeated [] [[97]; [98]; [99]; [98]; [97]]%N = Some [98]%N
  /\ first_repeated [] [[97]; [98]; [99]]%N = None.
Proof. exact node_id_check_nonvacuous. Qed.
Print Assumptions C01_node_id_check_nonvacuous.

(* decided for the code of this run: with the validation (compile_checks_node_uuids, probed), clause (a)
   "node identifiers are unique" holds of every flow that passes _compile_flow, by construction; without it
   (the defect duplicate-given-node-id) every flow passes *)
Theorem C01_compile_validation_decided :
  if compile_checks_node_uuids
  then forall f, compile_flow_validation (node_uuids f) = None <-> NoDup (node_uuids f)
  else forall us, compile_flow_validation us = None.
Proof. exact compile_validation_decided. Qed.
Print Assumptions C01_compile_validation_decided.
