(* C01 — every compiled flow is a referentially closed, importable RapidPro definition.
   The checker run on every document the implementation produces decides EXACTLY the
   property's clauses (a)-(g); (h)/(i) are checked on the serialised text by the harness. *)
From Coq Require Import List NArith Bool.
From RPFT Require Import Base.Sexp Base.PyStr Base.Result Gen.Tables Flow.Flow Flow.Closed Flow.NodeIdCheck Flow.NodeIdCheckFacts
     Flow.RowSem Comp.Compile Comp.CompileClosed Comp.CompileDistinct Comp.CompileExamples Comp.CompileExampleFacts Comp.CompileDoc.
Import ListNotations.

Theorem C01_closedb_spec : forall G d, closedb G d = true <-> Closed G d.
Proof. exact closedb_spec. Qed.
Print Assumptions C01_closedb_spec.

Theorem C01_flow_closedb_spec : forall f, flow_closedb f = true <-> FlowClosed f.
Proof. exact flow_closedb_spec. Qed.
Print Assumptions C01_flow_closedb_spec.

Theorem C01_node_closedb_spec : forall f nd, node_closedb f nd = true <-> NodeClosed f nd.
Proof. exact node_closedb_spec. Qed.
Print Assumptions C01_node_closedb_spec.

(* the node-uuid validation of FlowParser._compile_flow (model Flow/NodeIdCheck.v, tied to the code by
   differential execution): it passes exactly the duplicate-free lists, and the id it names is a repeated one *)
Theorem C01_node_id_check_spec : forall us, first_repeated [] us = None <-> NoDup us.
Proof. exact node_id_check_spec. Qed.
Print Assumptions C01_node_id_check_spec.

Theorem C01_node_id_check_names_repeated : forall us u,
  first_repeated [] us = Some u -> exists l1 l2, us = l1 ++ u :: l2 /\ In u l1 /\ NoDup l1.
Proof. exact node_id_check_names_repeated. Qed.
Print Assumptions C01_node_id_check_names_repeated.

Example C01_node_id_check_nonvacuous :
  first_repeated [] [[97]; [98]; [99]; [98]; [97]]%N = Some [98]%N
  /\ first_repeated [] [[97]; [98]; [99]]%N = None.
Proof. exact node_id_check_nonvacuous. Qed.
Print Assumptions C01_node_id_check_nonvacuous.

(* decided for the code of this run: with the validation (compile_checks_node_uuids, probed), clause (a)
   "node identifiers are unique" holds of every flow that passes _compile_flow, by construction; without it
   (the defect duplicate-given-node-id) every flow passes *)
Theorem C01_compile_validation_decided :
  if compile_checks_node_uuids
  then forall f, compile_flow_validation (node_uuids f) = None <-> NoDup (node_uuids f)
  else forall us, compile_flow_validation us = None.
Proof. exact compile_validation_decided. Qed.
Print Assumptions C01_compile_validation_decided.

(* ------------------------------------------------------------------------------------------------------------
   The compiler itself (model Comp/Compile.v: FlowParser._parse_row / add_exit / node groups / blocks / go_to /
   no_op / merged rows / _compile_flow and the node and router constructors, mirrored as coded and tied to the
   code by differential execution on generated sheets, harness/comp_corr.py): FOR EVERY LIST OF ROWS of the core
   vocabulary and every injective uuid supply, a sheet that compiles compiles to a closed flow. *)

(* clauses (b)-(f) hold whatever the node-uuid validation is: every exit leads nowhere or to a node of the same
   flow, categories and exits are in bijection, cases / default / no-response name categories of their own router,
   a node without router has exactly one exit *)
Theorem C01_compile_nodes_closed : forall fresh, (forall a b : nat, fresh a = fresh b -> a = b) ->
  forall validate name rows f, compile_with fresh validate name rows = Ok f ->
  forall nd, In nd (f_nodes f) -> NodeClosed f nd.
Proof. exact compile_nodes_closed. Qed.
Print Assumptions C01_compile_nodes_closed.

(* with a validation that lets only duplicate-free uuid lists through: all of FlowClosed (a)-(f) *)
Theorem C01_compile_with_closed : forall fresh, (forall a b : nat, fresh a = fresh b -> a = b) ->
  forall validate name rows f, (forall us, validate us = None -> NoDup us) ->
  compile_with fresh validate name rows = Ok f -> FlowClosed f.
Proof. exact compile_with_closed. Qed.
Print Assumptions C01_compile_with_closed.

(* the model of the code of this run *)
Theorem C01_compile_closed : forall fresh, (forall a b : nat, fresh a = fresh b -> a = b) ->
  forall name rows f, compile_checks_node_uuids = true -> compile fresh name rows = Ok f -> flow_closedb f = true.
Proof. exact compile_closed. Qed.
Print Assumptions C01_compile_closed.

(* decided for the code of this run: closed for all sheets with the validation; refuted without it *)
Theorem C01_compile_closed_decided :
  if compile_checks_node_uuids
  then forall fresh, (forall a b : nat, fresh a = fresh b -> a = b) ->
       forall name rows f, compile fresh name rows = Ok f -> flow_closedb f = true
  else exists rows f, compile std_fresh ex_name rows = Ok f /\ flow_closedb f = false.
Proof. exact compile_closed_decided. Qed.
Print Assumptions C01_compile_closed_decided.

(* (i) the hard-exit sentinel never reaches a compiled flow *)
Theorem C01_compile_no_sentinel : forall fresh validate name rows f,
  compile_with fresh validate name rows = Ok f ->
  forall nd e, In nd (f_nodes f) -> In e (n_exits nd) -> e_dest e <> Some hard_exit_sentinel.
Proof. exact compile_no_sentinel. Qed.
Print Assumptions C01_compile_no_sentinel.

(* (g) the identifiers at defining positions (flow, node, action, exit, category, case) of a compiled flow are
   pairwise distinct - given that no `_nodeId` of the rows is an identifier the supply hands out *)
Theorem C01_compile_def_ids_distinct : forall fresh, (forall a b : nat, fresh a = fresh b -> a = b) ->
  forall validate name rows f, (forall us, validate us = None -> NoDup us) ->
  (forall cr k, In cr rows -> cr_uuid cr <> fresh k) ->
  compile_with fresh validate name rows = Ok f -> NoDup (flow_def_ids f).
Proof. exact compile_def_ids_distinct. Qed.
Print Assumptions C01_compile_def_ids_distinct.

(* all of (a)-(g): the document checker accepts the compiled flow, for every set G of given identifiers that holds
   the rows' `_nodeId`s and none of the supply's, when the identifiers the run draws are RFC-4122 v4 strings *)
Theorem C01_compile_doc_closed : forall fresh, (forall a b : nat, fresh a = fresh b -> a = b) ->
  forall G name rows f,
  (forall k, k < compile_draws fresh rows -> is_uuid4 (fresh k) = true) -> (forall k, ~ In (fresh k) G) ->
  (forall cr, In cr rows -> cr_uuid cr <> [] -> In (cr_uuid cr) G) ->
  compile_checks_node_uuids = true -> compile fresh name rows = Ok f -> closedb G [f] = true.
Proof. exact compile_doc_closed. Qed.
Print Assumptions C01_compile_doc_closed.

(* its hypotheses are satisfiable: a supply of version-4 uuid strings, a sheet with two given `_nodeId`s *)
Example C01_compile_doc_closed_nonvacuous :
  (forall a b, uuid_fresh a = uuid_fresh b -> a = b)
  /\ (forall k, k < compile_draws uuid_fresh ex_given -> is_uuid4 (uuid_fresh k) = true)
  /\ (forall k, ~ In (uuid_fresh k) ex_given_ids)
  /\ (forall cr, In cr ex_given -> cr_uuid cr <> [] -> In (cr_uuid cr) ex_given_ids)
  /\ length ex_given_ids = 2
  /\ exists f, compile uuid_fresh ex_name ex_given = Ok f /\ length (f_nodes f) = 3 /\ closedb ex_given_ids [f] = true.
Proof. exact compile_doc_closed_example. Qed.
Print Assumptions C01_compile_doc_closed_nonvacuous.

(* SEVERAL FLOWS IN ONE CONTAINER: the FlowParsers of a container draw from one source; with one injective supply shared
   by them (compile_doc: flow i starts drawing where flow i-1 stopped) the identifiers the compiler invents are pairwise
   distinct across the WHOLE document and each is one of the container's draws ... *)
Theorem C01_compile_doc_ids : forall fresh, (forall a b : nat, fresh a = fresh b -> a = b) ->
  forall G sheets o fs,
  (forall k, ~ In (fresh k) G) ->
  (forall name rows cr, In (name, rows) sheets -> In cr rows -> cr_uuid cr <> [] -> In (cr_uuid cr) G) ->
  compile_checks_node_uuids = true -> compile_doc fresh o sheets = Ok fs ->
  NoDup (filter (invented G) (doc_def_ids fs))
  /\ (forall u, In u (filter (invented G) (doc_def_ids fs)) -> exists k, o <= k < doc_end fresh o sheets /\ u = fresh k)
  /\ (forall f, In f fs -> FlowClosed f).
Proof. exact compile_doc_ids. Qed.
Print Assumptions C01_compile_doc_ids.

(* ... hence the document checker (clauses a-g) accepts the container, when the identifiers it draws are v4 uuid strings *)
Theorem C01_compile_container_closed : forall fresh, (forall a b : nat, fresh a = fresh b -> a = b) ->
  forall G sheets fs,
  (forall k, k < doc_end fresh 0 sheets -> is_uuid4 (fresh k) = true) -> (forall k, ~ In (fresh k) G) ->
  (forall name rows cr, In (name, rows) sheets -> In cr rows -> cr_uuid cr <> [] -> In (cr_uuid cr) G) ->
  compile_checks_node_uuids = true -> compile_doc fresh 0 sheets = Ok fs -> closedb G fs = true.
Proof. exact compile_container_closed. Qed.
Print Assumptions C01_compile_container_closed.

(* satisfiable: three flows (one template compiled twice - the same GIVEN `_nodeId`s in two flows - and a flow with a
   router), one supply of v4 uuid strings: 50 invented identifiers, all distinct *)
Example C01_compile_container_closed_nonvacuous :
  (forall k, k < doc_end uuid_fresh 0 ex_container -> is_uuid4 (uuid_fresh k) = true)
  /\ (forall k, ~ In (uuid_fresh k) ex_given_ids)
  /\ (forall name rows cr, In (name, rows) ex_container -> In cr rows -> cr_uuid cr <> [] -> In (cr_uuid cr) ex_given_ids)
  /\ exists fs, compile_doc uuid_fresh 0 ex_container = Ok fs /\ length fs = 3 /\ closedb ex_given_ids fs = true
               /\ length (filter (invented ex_given_ids) (doc_def_ids fs)) = 50.
Proof. exact compile_container_closed_example. Qed.
Print Assumptions C01_compile_container_closed_nonvacuous.

(* the statement without the validation is false of the faithful model: two router rows with one `_nodeId` *)
Theorem C01_compile_closed_unvalidated_refuted :
  exists f, compile_with std_fresh (fun _ => None) ex_name ex_dup_uuid = Ok f /\ flow_closedb f = false.
Proof. exact compile_ex_dup_unvalidated. Qed.
Print Assumptions C01_compile_closed_unvalidated_refuted.

Example C01_compile_dup_rejected_nonvacuous :
  exists u, compile_with std_fresh (first_repeated []) ex_name ex_dup_uuid = Err (EDupNodeUuid u).
Proof. exact compile_ex_dup_rejected. Qed.
Print Assumptions C01_compile_dup_rejected_nonvacuous.

(* non-vacuity: sheets with a router and named categories / a go_to cycle / no_op forwarding and a no_op decision /
   nested blocks with a hard exit / rows merged through node ids and node names / enter-flow, webhook and airtime
   outcomes / hard and loose exits compile (nodes, routers) and are closed *)
Example C01_compile_router_nonvacuous : compiles_to ex_router 6 1.
Proof. exact compile_ex_router. Qed.
Print Assumptions C01_compile_router_nonvacuous.
Example C01_compile_goto_cycle_nonvacuous : compiles_to ex_goto_cycle 3 1.
Proof. exact compile_ex_goto_cycle. Qed.
Print Assumptions C01_compile_goto_cycle_nonvacuous.
Example C01_compile_noop_nonvacuous : compiles_to ex_noop 9 2.
Proof. exact compile_ex_noop. Qed.
Print Assumptions C01_compile_noop_nonvacuous.
Example C01_compile_blocks_nonvacuous : compiles_to ex_blocks 8 1.
Proof. exact compile_ex_blocks. Qed.
Print Assumptions C01_compile_blocks_nonvacuous.
Example C01_compile_merged_nonvacuous : compiles_to ex_merged 3 0.
Proof. exact compile_ex_merged. Qed.
Print Assumptions C01_compile_merged_nonvacuous.
Example C01_compile_outcome_nonvacuous : compiles_to ex_outcome 9 3.
Proof. exact compile_ex_outcome. Qed.
Print Assumptions C01_compile_outcome_nonvacuous.
Example C01_compile_exits_nonvacuous : compiles_to ex_exits 3 1.
Proof. exact compile_ex_exits. Qed.
Print Assumptions C01_compile_exits_nonvacuous.
