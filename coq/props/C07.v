(* C07 — row models survive the trip to spreadsheet cells and back, in every layout.
   Only property theorems here, each closed by [exact] and followed by Print Assumptions.

   Vocabulary (Row/RoundTrip.v):  [row_dom root v targets] is the executable domain of the
   statement = representable (strings trimmed, floats in the modelled decimal fragment, every
   list element / non-default compound field writes at least one column — i.e. no all-default
   model or empty list inside a list —, written headers lead back to their field) + admissible
   (a node matched by a target header is packed into one cell: the cell codec's domain of C08 —
   two list levels for the value at hand, no blank last element, no U+0001 — and the shapes the
   keyword decoder inverts).  The model's cell parser is CellParser.parse without templating:
   strings with Jinja openers are outside the modelled fragment (evidence: assumptions). *)
From Coq Require Import List NArith ZArith Bool Permutation.
From RPFT Require Import Base.Sexp Base.PyStr Base.Result Gen.Tables Cell.Cell Row.Ty Row.Layout Row.RowParse
  Row.RowUnparse Row.FlowRow Row.RowFacts Row.TextFacts Row.RoundTrip Row.RoundTripFacts Row.RoundTripExamples
  Row.RefuteFacts Row.CtxRoundTripFacts Row.FlowRowFacts Row.OrderFacts Row.Session Row.SessionFacts Row.SessionExamples.
Import ListNotations.

(* the regenerated constants satisfy what the proofs need *)
Theorem C07_tables_ok : row_tables_ok = true.
Proof. exact row_tables_ok_true. Qed.
Print Assumptions C07_tables_ok.

Theorem C07_text_tables_ok : row_text_tables_ok = true.
Proof. exact row_text_tables_ok_true. Qed.
Print Assumptions C07_text_tables_ok.

(* 1. the round trip, any model of the universe, any layout (target headers), no row context,
      no excluded headers: the row IS written (distinct headers) and read back as the instance.
      Covers spread layouts at any nesting and packed leaves (lists of basics, lists of lists of
      basics, bare lists, flat models as key;value pairs, renamed fields). *)
Theorem C07_row_roundtrip : forall root v targets,
  row_dom root v targets = true ->
  exists cells, unparse_row root v targets [] = Ok cells
                /\ parse_row {| rm_ty := root; rm_ctx := None |} cells = Ok v.
Proof. exact row_roundtrip_total. Qed.
Print Assumptions C07_row_roundtrip.

Example C07_row_roundtrip_nonvacuous : row_dom ex_ty ex_v ex_targets = true.
Proof. exact ex_in_domain. Qed.
Print Assumptions C07_row_roundtrip_nonvacuous.

Example C07_row_roundtrip_nonvacuous_cells : unparse_row ex_ty ex_v ex_targets [] = Ok ex_cells.
Proof. exact ex_unparse. Qed.
Print Assumptions C07_row_roundtrip_nonvacuous_cells.

Example C07_row_roundtrip_nonvacuous_spread : row_dom ex_ty ex_v [] = true.
Proof. exact ex_in_domain_spread. Qed.
Print Assumptions C07_row_roundtrip_nonvacuous_spread.

(* 2. the instance for the REGENERATED flow row model (its row-type dependent header remap,
      the export targets FlowContainer.to_row_data_sheet passes, strip_uuids = False).
      [flow_dom v]: the row type is a known one and v is in [row_dom] for FlowRowModel read with
      the header table of that row type (so at most the main argument of its row type is set). *)
Theorem C07_flow_row_roundtrip : forall v,
  flow_dom v = true ->
  exists cells, flow_unparse v false = Ok cells /\ flow_parse cells = Ok v.
Proof. exact flow_row_roundtrip. Qed.
Print Assumptions C07_flow_row_roundtrip.

Example C07_flow_row_roundtrip_nonvacuous : flow_dom ex_flow_row = true.
Proof. exact ex_flow_in_domain. Qed.
Print Assumptions C07_flow_row_roundtrip_nonvacuous.

(* the same for any row model with a context remap (generic over the tables) *)
Theorem C07_ctx_row_roundtrip : forall cx fields f2h,
  ctx_wf cx fields f2h = true -> forall v targets,
  ctx_row_dom cx fields f2h v targets = true ->
  exists cells, unparse_row (TModel fields [] f2h) v targets [] = Ok cells
                /\ parse_row {| rm_ty := TModel fields [] f2h; rm_ctx := Some cx |} cells = Ok v.
Proof. exact ctx_row_roundtrip. Qed.
Print Assumptions C07_ctx_row_roundtrip.

Example C07_ctx_row_roundtrip_nonvacuous : ctx_wf flow_cx flow_fields flow_f2h = true.
Proof. exact flow_ctx_wf. Qed.
Print Assumptions C07_ctx_row_roundtrip_nonvacuous.

(* the remap tables, finite proofs over the regenerated tables: for every known row type the
   header a field is written under is re-keyed back to that field (message_text: to the main
   argument of the row type); every main argument is selected by some row type; in the
   sub-models header_name_to_field_name inverts field_name_to_header_name *)
Theorem C07_flow_remap_identity : forall rt f n,
  In (rt, f) (cx_sw_table flow_cx) -> In n (map f_name flow_fields) ->
  (remap_get flow_f2h n = cx_sw_header flow_cx -> f = n) ->
  ctx_h2f (Some flow_cx) [(cx_sw_column flow_cx, rt)] (remap_get flow_f2h n) = Ok n.
Proof. exact flow_remap_identity. Qed.
Print Assumptions C07_flow_remap_identity.

Example C07_flow_remap_identity_nonvacuous :
  In ([115; 101; 110; 100; 95; 109; 101; 115; 115; 97; 103; 101]%N,
      [109; 97; 105; 110; 97; 114; 103; 95; 109; 101; 115; 115; 97; 103; 101; 95; 116; 101; 120; 116]%N) (cx_sw_table flow_cx)
  /\ In [109; 97; 105; 110; 97; 114; 103; 95; 109; 101; 115; 115; 97; 103; 101; 95; 116; 101; 120; 116]%N (map f_name flow_fields)
  /\ remap_get flow_f2h [109; 97; 105; 110; 97; 114; 103; 95; 109; 101; 115; 115; 97; 103; 101; 95; 116; 101; 120; 116]%N = cx_sw_header flow_cx.
Proof. exact flow_remap_identity_hyps. Qed.
Print Assumptions C07_flow_remap_identity_nonvacuous.

Theorem C07_flow_mainargs_reachable : flow_mainargs_reachable = true.
Proof. exact flow_mainargs_reachable_true. Qed.
Print Assumptions C07_flow_mainargs_reachable.

Theorem C07_flow_submodel_remaps_inverse : forallb (fun f => remaps_inverse (f_ty f)) flow_fields = true.
Proof. exact flow_submodel_remaps_inverse. Qed.
Print Assumptions C07_flow_submodel_remaps_inverse.

(* outside flow_dom: the main argument of another row type is written under message_text and
   comes back in the wrong field (or not at all) *)
Theorem C07_flow_wrong_mainarg_refuted :
  flow_dom ex_flow_wrong_mainarg = false
  /\ match flow_unparse ex_flow_wrong_mainarg false with
     | Ok cells => match flow_parse cells with Ok v' => negb (value_eqb v' ex_flow_wrong_mainarg) | Err _ => true end
     | Err _ => true
     end = true.
Proof. exact flow_wrong_mainarg_refuted. Qed.
Print Assumptions C07_flow_wrong_mainarg_refuted.

(* 3. the order of the columns is irrelevant as long as the columns of one list first appear by
      increasing index ([cols_ordered], on the headers split at "."): any such permutation of the
      written row is read back as the instance (covers any column order a sheet may have) *)
Theorem C07_header_order_irrelevant : forall root v targets cells cells',
  row_dom root v targets = true ->
  unparse_row root v targets [] = Ok cells ->
  Permutation cells cells' ->
  cols_ordered root (cols_of_cells cells') = true ->
  parse_row {| rm_ty := root; rm_ctx := None |} cells' = Ok v.
Proof. exact header_order_irrelevant. Qed.
Print Assumptions C07_header_order_irrelevant.

Example C07_header_order_irrelevant_nonvacuous :
  Permutation ex_cells ex_cells_shuffled /\ cols_ordered ex_ty (cols_of_cells ex_cells_shuffled) = true.
Proof. exact ex_shuffled_hyps. Qed.
Print Assumptions C07_header_order_irrelevant_nonvacuous.

(* ... and the ordering condition cannot be dropped: u.2 before u.1 *)
Theorem C07_header_order_unrestricted_refuted :
  Permutation ex_cells ex_cells_bad_order
  /\ cols_ordered ex_ty (cols_of_cells ex_cells_bad_order) = false
  /\ parse_row {| rm_ty := ex_ty; rm_ctx := None |} ex_cells_bad_order = Err EAssert.
Proof. exact header_order_unrestricted_refuted. Qed.
Print Assumptions C07_header_order_unrestricted_refuted.

(* 4. the hypotheses cannot be dropped: witnesses outside the domain (replayed on the real
      RowParser by the harness) *)
Theorem C07_all_default_in_list_refuted :
  row_dom r1_ty r1_v [] = false
  /\ unparse_row r1_ty r1_v [] [] = Ok [([97%N], [113%N])]
  /\ parse_row {| rm_ty := r1_ty; rm_ctx := None |} [([97%N], [113%N])] = Ok r1_back
  /\ r1_back <> r1_v.
Proof. exact all_default_in_list_refuted. Qed.
Print Assumptions C07_all_default_in_list_refuted.

(* finding packed-model-blank-value-under-nonblank-default: DECIDED by the probed constant join_keeps_blank_last
   (does join_from_lists keep an empty last element by a trailing separator?).  On the repaired tree the instance
   is inside the proved domain (C07_row_roundtrip covers it), is written a;;| and comes back. *)
Theorem C07_packed_blank_decided :
  if join_keeps_blank_last
  then row_dom r2_ty r2_v [[115%N]] = true
       /\ unparse_row r2_ty r2_v [[115%N]] [] = Ok r2_cells_kept
       /\ parse_row {| rm_ty := r2_ty; rm_ctx := None |} r2_cells_kept = Ok r2_v
  else row_dom r2_ty r2_v [[115%N]] = false
       /\ unparse_row r2_ty r2_v [[115%N]] [] = Ok r2_cells
       /\ parse_row {| rm_ty := r2_ty; rm_ctx := None |} r2_cells = Ok r2_back
       /\ r2_back <> r2_v.
Proof. exact packed_blank_decided. Qed.
Print Assumptions C07_packed_blank_decided.

(* the reader is the same on either tree *)
Theorem C07_packed_blank_reader :
  parse_row {| rm_ty := r2_ty; rm_ctx := None |} r2_cells = Ok r2_back
  /\ parse_row {| rm_ty := r2_ty; rm_ctx := None |} r2_cells_kept = Ok r2_v
  /\ r2_back <> r2_v.
Proof. exact packed_blank_reader. Qed.
Print Assumptions C07_packed_blank_reader.

Theorem C07_packing_limit_refuted :
  row_dom r4_ty r4_v [[108%N]] = false
  /\ unparse_row r4_ty r4_v [[108%N]] [] = Err EJoin.
Proof. exact packing_limit_refuted. Qed.
Print Assumptions C07_packing_limit_refuted.

(* 5. the file leg, one cell at a time: RowDataSheet.export(filename, "xlsx") + XLSXSheetReader (Io/XlsxCell.v, tied to
      the code by the probe xlsx_export_text_cells and by the harness's cell stream, engine 107 fn 8).
      Finding xlsx-cell-starting-with-equals-sign: the full statement is decided by the probe. *)
From RPFT Require Import Io.XlsxCell Io.XlsxCellFacts.

Theorem C07_xlsx_text_survives_decided :
  if xlsx_export_text_cells
  then forall s, xlsx_cell_roundtrip s = s
  else ~ (forall s, xlsx_cell_roundtrip s = s).
Proof. exact xlsx_text_survives_decided. Qed.
Print Assumptions C07_xlsx_text_survives_decided.

(* what comes back, on either tree: everything but a text "=…" of two or more characters *)
Theorem C07_xlsx_cell_roundtrip_spec : forall s,
  xlsx_cell_roundtrip s = if is_formula_text s && negb xlsx_export_text_cells then [] else s.
Proof. exact xlsx_cell_roundtrip_spec. Qed.
Print Assumptions C07_xlsx_cell_roundtrip_spec.

Theorem C07_xlsx_formula_witness :
  is_formula_text w_formula_text = true
  /\ xlsx_cell_roundtrip w_formula_text = (if xlsx_export_text_cells then w_formula_text else [])
  /\ xlsx_cell_roundtrip [c_equals] = [c_equals].
Proof. exact xlsx_formula_witness. Qed.
Print Assumptions C07_xlsx_formula_witness.

Theorem C07_xlsx_row_survives_repaired :
  xlsx_export_text_cells = true -> forall cells : list str, map xlsx_cell_roundtrip cells = cells.
Proof. exact xlsx_row_survives_repaired. Qed.
Print Assumptions C07_xlsx_row_survives_repaired.

(* 5. sessions (Row/Session.v): a FAMILY of classes — some derived from an earlier one the way pydantic collects the
      fields of a subclass — and a SEQUENCE of operations on the long-lived parsers of these classes, run through
      the state machine [run_session] that keeps what RowParser keeps between two calls (its two registers).
      The outcome of every operation is the pure function of the class description and the arguments: nothing an
      earlier operation did (on the same class, on a base class, on a sibling, a failed call, a new parser) enters.
      The harness runs the SAME sessions through the extracted [run_session] and through ONE long-lived set of
      implementation classes / RowParsers and compares every step. *)
Theorem C07_session_history_independent : forall fam ops,
  run_session fam ops = map (op_result (classes fam)) ops.
Proof. exact session_history_independent. Qed.
Print Assumptions C07_session_history_independent.

(* ... in particular: an operation in the middle of a session yields what it yields as the only operation *)
Theorem C07_session_same_as_fresh : forall fam before o after,
  nth_error (run_session fam (before ++ o :: after)) (length before) = nth_error (run_session fam [o]) 0.
Proof. exact session_same_as_fresh. Qed.
Print Assumptions C07_session_same_as_fresh.

(* ... whatever the registers hold when the session starts *)
Theorem C07_session_initial_state_irrelevant : forall cls ops st,
  run_from cls st ops = map (op_result cls) ops.
Proof. exact session_initial_state_irrelevant. Qed.
Print Assumptions C07_session_initial_state_irrelevant.

(* the round trip at ANY point of ANY session, for ANY class of the family (derived ones included) *)
Theorem C07_session_roundtrip : forall fam before k v targets after root,
  class_of (classes fam) k = Some root ->
  row_dom root v targets = true ->
  nth_error (run_session fam (before ++ OpRound k v targets :: after)) (length before) = Some (RValue (Ok v)).
Proof. exact session_roundtrip. Qed.
Print Assumptions C07_session_roundtrip.

(* a derived class is judged against ITS OWN declarations: a field its body declares has the type and default
   written there whatever the base class says, any other field is the base's; class k of a family depends on the
   classes BEFORE it only *)
Theorem C07_derived_class_own_default : forall fam k p over h g pfs ph pg n t d,
  nth_error fam k = Some (DDerive p over h g) ->
  class_of (classes fam) p = Some (TModel pfs ph pg) ->
  (p < k)%nat ->
  NoDup (map f_name over) -> In (n, (t, d)) over ->
  exists fs h' g', class_of (classes fam) k = Some (TModel fs h' g')
                   /\ field_lookup fd fs n = Some (t, d)
                   /\ (forall m, ~ In m (map f_name over) -> field_lookup fd fs m = field_lookup fd pfs m).
Proof. exact derived_class_own_default. Qed.
Print Assumptions C07_derived_class_own_default.

(* non-vacuity: Question / FollowUp(Question) with other defaults; FollowUp(attempts=3, required=True, weight=1.0)
   — the BASE class's defaults — after a Question was written: the three cells are written, the row reads back *)
Example C07_session_nonvacuous_classes : classes ex_family = [Some ex_question; Some ex_followup].
Proof. exact ex_classes. Qed.
Print Assumptions C07_session_nonvacuous_classes.

Example C07_session_roundtrip_nonvacuous :
  class_of (classes ex_family) 1 = Some ex_followup /\ row_dom ex_followup ex_f2 [] = true.
Proof. exact ex_followup_hyps. Qed.
Print Assumptions C07_session_roundtrip_nonvacuous.

Example C07_session_nonvacuous_run :
  run_session ex_family ex_ops = [RValue (Ok ex_q1); RCells (Ok ex_f2_cells); RDone; RValue (Ok ex_f2)].
Proof. exact ex_session_run. Qed.
Print Assumptions C07_session_nonvacuous_run.

(* 6. the file leg, which headers become columns: RowDataSheet._get_headers (Io/SheetHeaders.v, tied to the code by the
      probe sheet_keeps_single_columns and by the harness's header stream, engine 107 fn 11; the ORDER of the columns is
      not modelled).  Finding single-column-sheet-export-crashes: the full statement is decided by the probe. *)
From RPFT Require Import Io.SheetHeaders Io.SheetHeadersFacts.

Theorem C07_sheet_headers_complete_decided :
  if sheet_keeps_single_columns
  then forall rows r h, In r rows -> In h r -> In h (sheet_header_set rows)
  else ~ (forall rows r h, In r rows -> In h r -> In h (sheet_header_set rows)).
Proof. exact sheet_headers_complete_decided. Qed.
Print Assumptions C07_sheet_headers_complete_decided.

(* either tree: columns are headers some row writes, no column twice, and rows with two or more columns keep theirs *)
Theorem C07_sheet_headers_sound : forall rows h, In h (sheet_header_set rows) -> exists r, In r rows /\ In h r.
Proof. exact sheet_headers_sound. Qed.
Print Assumptions C07_sheet_headers_sound.

Theorem C07_sheet_headers_nodup : forall rows, NoDup (sheet_header_set rows).
Proof. exact sheet_headers_nodup. Qed.
Print Assumptions C07_sheet_headers_nodup.

Theorem C07_sheet_headers_wide_rows : forall rows r h,
  In r rows -> (2 <= length r)%nat -> In h r -> In h (sheet_header_set rows).
Proof. exact sheet_headers_wide_rows. Qed.
Print Assumptions C07_sheet_headers_wide_rows.

(* the two shapes of the finding: no column at all (TypeError in convert_to_tablib) / the cell of a one-column row
   next to a wider row is not in the sheet *)
Theorem C07_sheet_headers_witness :
  sheet_header_set [[w_e1]; [w_e1]] = (if sheet_keeps_single_columns then [w_e1] else [])
  /\ sheet_header_set [[w_a; w_b]; [w_c]] = (if sheet_keeps_single_columns then [w_a; w_b; w_c] else [w_a; w_b])
  /\ sheet_cell (sheet_header_set [[w_a; w_b]; [w_c]]) [(w_c, [118%N])] w_c
     = (if sheet_keeps_single_columns then Some [118%N] else None).
Proof. exact sheet_headers_witness. Qed.
Print Assumptions C07_sheet_headers_witness.
