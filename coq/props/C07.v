(* C07 — row models survive the trip to spreadsheet cells and back, in every layout.
   Only property theorems here, each closed by [exact] and followed by Print Assumptions. *)
From Coq Require Import List NArith Bool.
From RPFT Require Import Base.Sexp Base.PyStr Gen.Tables Cell.Cell Row.Ty Row.Layout Row.RowParse Row.RowUnparse Row.FlowRow Row.RowFacts.
Import ListNotations.

(* the regenerated constants satisfy what the proofs need *)
Theorem C07_tables_ok : row_tables_ok = true.
Proof. exact row_tables_ok_true. Qed.
Print Assumptions C07_tables_ok.
