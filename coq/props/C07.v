(* C07 — row models survive the trip to spreadsheet cells and back, in every layout.
   Only property theorems here, each closed by [exact] and followed by Print Assumptions.

   Vocabulary (Row/RoundTrip.v):  [row_dom root v targets] is the executable domain of the
   statement = representable (strings trimmed, floats in the modelled decimal fragment, every
   list element / non-default compound field writes at least one column — i.e. no all-default
   model or empty list inside a list —, written headers lead back to their field) + admissible
   (a node matched by a target header is packed into one cell: the cell codec's domain of C08 —
   two list levels for the value at hand, no blank last element, no U+0001 — and the shapes the
   keyword decoder inverts).  The model's cell parser is CellParser.parse without templating:
   strings with Jinja openers are outside the modelled fragment (evidence: assumptions). *)
From Coq Require Import List NArith ZArith Bool.
From RPFT Require Import Base.Sexp Base.PyStr Base.Result Gen.Tables Cell.Cell Row.Ty Row.Layout Row.RowParse
  Row.RowUnparse Row.FlowRow Row.RowFacts Row.TextFacts Row.RoundTrip Row.RoundTripFacts Row.RoundTripExamples
  Row.RefuteFacts.
Import ListNotations.

(* the regenerated constants satisfy what the proofs need *)
Theorem C07_tables_ok : row_tables_ok = true.
Proof. exact row_tables_ok_true. Qed.
Print Assumptions C07_tables_ok.

Theorem C07_text_tables_ok : row_text_tables_ok = true.
Proof. exact row_text_tables_ok_true. Qed.
Print Assumptions C07_text_tables_ok.

(* 1. the round trip, any model of the universe, any layout (target headers), no row context,
      no excluded headers: the row IS written (distinct headers) and read back as the instance.
      Covers spread layouts at any nesting and packed leaves (lists of basics, lists of lists of
      basics, bare lists, flat models as key;value pairs, renamed fields). *)
Theorem C07_row_roundtrip : forall root v targets,
  row_dom root v targets = true ->
  exists cells, unparse_row root v targets [] = Ok cells
                /\ parse_row {| rm_ty := root; rm_ctx := None |} cells = Ok v.
Proof. exact row_roundtrip_total. Qed.
Print Assumptions C07_row_roundtrip.

Example C07_row_roundtrip_nonvacuous : row_dom ex_ty ex_v ex_targets = true.
Proof. exact ex_in_domain. Qed.
Print Assumptions C07_row_roundtrip_nonvacuous.

Example C07_row_roundtrip_nonvacuous_cells : unparse_row ex_ty ex_v ex_targets [] = Ok ex_cells.
Proof. exact ex_unparse. Qed.
Print Assumptions C07_row_roundtrip_nonvacuous_cells.

Example C07_row_roundtrip_nonvacuous_spread : row_dom ex_ty ex_v [] = true.
Proof. exact ex_in_domain_spread. Qed.
Print Assumptions C07_row_roundtrip_nonvacuous_spread.

(* 4. the hypotheses cannot be dropped: witnesses outside the domain (replayed on the real
      RowParser by the harness) *)
Theorem C07_all_default_in_list_refuted :
  row_dom r1_ty r1_v [] = false
  /\ unparse_row r1_ty r1_v [] [] = Ok [([97%N], [113%N])]
  /\ parse_row {| rm_ty := r1_ty; rm_ctx := None |} [([97%N], [113%N])] = Ok r1_back
  /\ r1_back <> r1_v.
Proof. exact all_default_in_list_refuted. Qed.
Print Assumptions C07_all_default_in_list_refuted.

Theorem C07_packed_blank_refuted :
  row_dom r2_ty r2_v [[115%N]] = false
  /\ unparse_row r2_ty r2_v [[115%N]] [] = Ok r2_cells
  /\ parse_row {| rm_ty := r2_ty; rm_ctx := None |} r2_cells = Ok r2_back
  /\ r2_back <> r2_v.
Proof. exact packed_blank_refuted. Qed.
Print Assumptions C07_packed_blank_refuted.

Theorem C07_packing_limit_refuted :
  row_dom r4_ty r4_v [[108%N]] = false
  /\ unparse_row r4_ty r4_v [[108%N]] [] = Err EJoin.
Proof. exact packing_limit_refuted. Qed.
Print Assumptions C07_packing_limit_refuted.
