(* C15 — invalid input stops the command: non-zero exit and no flow file.
   Only statements closed by `exact <lemma>`; the proofs are in coq/theories/Io/Cli*Facts.v.

   cli / compile          coq/theories/Io/Cli.v, CliIndex.v, CliFlow.v (model of rpft create_flows)
   evaluated_at           the trapped run stops at that row: it is evaluated (CliRowFacts.v)
   *_partial              restricted domain; the full statement is the Definition *_full of
                          coq/theories/Io/CliFull.v and the comment there says what is open.
   Not modelled at all: the TEXT written to stderr / errors.log ("names the problem") and the
   process being killed from outside while json.dump writes. *)
From Coq Require Import List NArith ZArith Bool Arith.
From RPFT Require Import Base.Sexp Base.PyStr Base.Result Base.Json Gen.Tables
  Io.CliFlow Io.CliIndex Io.CliJson Io.CliJsonFacts Io.Cli Io.CliSimFacts Io.CliRowFacts Io.CliCatFacts
  Io.CliFacts Io.CliFull Io.CliExamples Io.CliLog Io.CliLogFacts.
Import ListNotations.

(* ---- the prefix lemma: what precedes the first read of a row does not depend on that row;
        if reading the row of wb' in the state reached is an error, compiling wb' is that error *)
Theorem c15_fault_fatal :
  forall (fuel : nat) (wb wb' : workbook) (dm : option (list str)) (t0 : str) (p : nat) (tail : bool) (sel : selector),
    erase wb' = erase wb ->
    (forall t q, in_region t0 p tail t q = false -> nth_error (rows_of wb' t) q = nth_error (rows_of wb t) q) ->
    (forall t q bt o s, in_region t0 p tail t q = true -> sel o s (nth_error (rows_of wb t) q) = false ->
                        visit_of wb' t q bt o s = visit_of wb t q bt o s) ->
    forall t1 q1 s1 bt1 o1 c1,
      compile_trap fuel wb dm t0 p tail sel = Err (TTrap t1 q1 s1 bt1 o1) ->
      visit_of wb' t1 q1 bt1 o1 s1 = Err c1 ->
      compile fuel wb' dm = Err c1.
Proof. exact fault_fatal. Qed.
Print Assumptions c15_fault_fatal.

Theorem c15_cli_error_no_file :
  forall fuel wb dm out f c,
    compile fuel wb dm = Err c ->
  snd (cli fuel wb dm out f) = f /\ fst (cli fuel wb dm out f) <> 0%N.
Proof. exact cli_error_no_file. Qed.
Print Assumptions c15_cli_error_no_file.

Theorem c15_cli_ok_complete :
  forall fuel wb dm out f d,
    compile fuel wb dm = Ok d ->
  fst (cli fuel wb dm out f) = 0%N /\
  fs_read (snd (cli fuel wb dm out f)) out = Some (serialize (doc_json d)) /\
  (forall p, p <> out -> fs_read (snd (cli fuel wb dm out f)) p = fs_read f p) /\
  (names_ok d = true -> parse_json (serialize (doc_json d)) = Some (doc_json d)).
Proof. exact cli_ok_complete. Qed.
Print Assumptions c15_cli_ok_complete.

Theorem c15_cli_output_old_or_complete :
  forall fuel wb dm out f,
    fs_read (snd (cli fuel wb dm out f)) out = fs_read f out \/
  exists d, compile fuel wb dm = Ok d /\ fs_read (snd (cli fuel wb dm out f)) out = Some (serialize (doc_json d)).
Proof. exact cli_output_old_or_complete. Qed.
Print Assumptions c15_cli_output_old_or_complete.

Theorem c15_detected_fault_stops_the_command :
  forall fuel wb' dm c out f,
    compile fuel wb' dm = Err c ->
  fst (cli fuel wb' dm out f) <> 0%N /\ snd (cli fuel wb' dm out f) = f /\
  fs_read (snd (cli fuel wb' dm out f)) out = fs_read f out.
Proof. exact detected_fault_stops_the_command. Qed.
Print Assumptions c15_detected_fault_stops_the_command.


Theorem c15_parse_serialize :
  forall j, json_ok j = true -> parse_json (serialize j) = Some j.
Proof. exact parse_serialize. Qed.
Print Assumptions c15_parse_serialize.

Theorem c15_trap_fires :
  forall fuel wb dm t0 p tail sel t1 q1 s1 bt1 o1,
    compile_trap fuel wb dm t0 p tail sel = Err (TTrap t1 q1 s1 bt1 o1) ->
  in_region t0 p tail t1 q1 = true /\ sel o1 s1 (nth_error (rows_of wb t1) q1) = true.
Proof. exact trap_fires. Qed.
Print Assumptions c15_trap_fires.

Theorem c15_valid_visit_ok :
  forall fuel wb dm d t0 p tail sel t1 q1 s1 bt1 o1,
    compile fuel wb dm = Ok d ->
  compile_trap fuel wb dm t0 p tail sel = Err (TTrap t1 q1 s1 bt1 o1) ->
  exists st, visit_of wb t1 q1 bt1 o1 s1 = Ok st.
Proof. exact valid_visit_ok. Qed.
Print Assumptions c15_valid_visit_ok.

Theorem c15_row_fault_fatal :
  forall fuel wb dm t0 p r r' s bt c,
    nth_error (rows_of wb t0) p = Some r ->
  r_type r' = r_type r -> r_inc r' = r_inc r ->
  evaluated_at fuel wb dm t0 p s bt ->
  visit_row bt false s (Some r') = Err c ->
  compile fuel (set_row wb t0 p r') dm = Err c.
Proof. exact row_fault_fatal. Qed.
Print Assumptions c15_row_fault_fatal.

Theorem c15_detect_empty_text :
  forall fuel wb dm d t0 p r s bt,
    compile fuel wb dm = Ok d ->
  nth_error (rows_of wb t0) p = Some r -> r_type r = TSend ->
  evaluated_at fuel wb dm t0 p s bt ->
  compile fuel (set_row wb t0 p (set_main r [])) dm = Err EEmptyText.
Proof. exact detect_empty_text. Qed.
Print Assumptions c15_detect_empty_text.

Theorem c15_detect_overlong_value :
  forall fuel wb dm d t0 p r s bt v,
    compile fuel wb dm = Ok d ->
  nth_error (rows_of wb t0) p = Some r -> (r_type r = TSaveValue \/ r_type r = TSaveResult) ->
  evaluated_at fuel wb dm t0 p s bt ->
  too_long (strip v) = true ->
  compile fuel (set_row wb t0 p (set_main r [Lit v])) dm = Err EValueTooLong.
Proof. exact detect_overlong_value. Qed.
Print Assumptions c15_detect_overlong_value.

Theorem c15_detect_webhook_headers :
  forall fuel wb dm d t0 p r s bt h,
    compile fuel wb dm = Ok d ->
  nth_error (rows_of wb t0) p = Some r -> r_type r = TWebhook ->
  evaluated_at fuel wb dm t0 p s bt ->
  headers_ok h = false ->
  compile fuel (set_row wb t0 p (set_headers r h)) dm = Err EHeaders.
Proof. exact detect_webhook_headers. Qed.
Print Assumptions c15_detect_webhook_headers.

Theorem c15_detect_loop_without_variable :
  forall fuel wb dm d t0 p r s bt,
    compile fuel wb dm = Ok d ->
  nth_error (rows_of wb t0) p = Some r -> r_type r = TBeginFor ->
  evaluated_at fuel wb dm t0 p s bt ->
  compile fuel (set_row wb t0 p (set_vars r [])) dm = Err ENoLoopVar.
Proof. exact detect_loop_without_variable. Qed.
Print Assumptions c15_detect_loop_without_variable.

(* go_to arity is judged on the edges the tool READS ([edges_read]: the rendered edge cells of the
   row minus the blank padding that the tree at hand drops, FlowParser._parse_next_row) *)
Theorem c15_detect_goto_arity :
  forall fuel wb dm d t0 p r s bt (dests : list str) es,
    compile fuel wb dm = Ok d ->
  nth_error (rows_of wb t0) p = Some r -> r_type r = TGoto ->
  evaluated_at fuel wb dm t0 p s bt ->
  edges_read (f_ctx s) r = Ok es ->
  length dests <> 1 -> length dests <> length es ->
  compile fuel (set_row wb t0 p (set_list r (map (fun s => [Lit s]) dests))) dm = Err EGotoArity.
Proof. exact detect_goto_arity. Qed.
Print Assumptions c15_detect_goto_arity.

(* in terms of the edge cells as written: more destinations than cells, on every tree *)
Theorem c15_detect_goto_arity_too_many :
  forall fuel wb dm d t0 p r s bt (dests : list str),
    compile fuel wb dm = Ok d ->
  nth_error (rows_of wb t0) p = Some r -> r_type r = TGoto ->
  evaluated_at fuel wb dm t0 p s bt ->
  length dests <> 1 -> length (r_edges r) < length dests ->
  compile fuel (set_row wb t0 p (set_list r (map (fun s => [Lit s]) dests))) dm = Err EGotoArity.
Proof. exact detect_goto_arity_too_many. Qed.
Print Assumptions c15_detect_goto_arity_too_many.

(* ... and any other count when no edge cell after the first is blank padding *)
Theorem c15_detect_goto_arity_unpadded :
  forall fuel wb dm d t0 p r s bt (dests : list str) es,
    compile fuel wb dm = Ok d ->
  nth_error (rows_of wb t0) p = Some r -> r_type r = TGoto ->
  evaluated_at fuel wb dm t0 p s bt ->
  mapM (render_edge (f_ctx s)) (r_edges r) = Ok es -> forallb nontrivial (tl es) = true ->
  length dests <> 1 -> length dests <> length (r_edges r) ->
  compile fuel (set_row wb t0 p (set_list r (map (fun s => [Lit s]) dests))) dm = Err EGotoArity.
Proof. exact detect_goto_arity_unpadded. Qed.
Print Assumptions c15_detect_goto_arity_unpadded.

(* the statement over the cells as written, without the no-padding premise, is false on a tree
   that drops padding at read (a padded go_to row is not an arity fault there) *)
Theorem c15_detect_goto_arity_as_written_refuted :
  padding_edges_dropped_at_read = true ->
  ~ (forall fuel wb dm d t0 p r s bt (dests : list str),
       compile fuel wb dm = Ok d ->
       nth_error (rows_of wb t0) p = Some r -> r_type r = TGoto ->
       evaluated_at fuel wb dm t0 p s bt ->
       length dests <> 1 -> length dests <> length (r_edges r) ->
       compile fuel (set_row wb t0 p (set_list r (map (fun s => [Lit s]) dests))) dm = Err EGotoArity).
Proof. exact detect_goto_arity_as_written_refuted. Qed.
Print Assumptions c15_detect_goto_arity_as_written_refuted.

(* what reading does to the edges of a row, for both values of the probe *)
Theorem c15_padding_read_facts :
  forall es,
    hd_error (drop_padding_edges es) = hd_error es /\                                   (* the first edge is kept *)
    filter nontrivial (drop_padding_edges es) = filter nontrivial es /\                 (* every non-trivial edge, in order *)
    List.incl (drop_padding_edges es) es /\                                             (* nothing invented *)
    length (filter nontrivial es) <= length (drop_padding_edges es) <= length es /\     (* can only shrink *)
    (forallb nontrivial (tl es) = true -> drop_padding_edges es = es) /\                (* no padding: read as written *)
    (padding_edges_dropped_at_read = false -> drop_padding_edges es = es) /\            (* the tree before the repair *)
    drop_padding_edges (drop_padding_edges es) = drop_padding_edges es.
Proof. exact padding_read_facts. Qed.
Print Assumptions c15_padding_read_facts.

Theorem c15_detect_edge_from_unknown_row_partial :
  forall fuel wb dm d t0 p r s bt ghost e0 more,
    compile fuel wb dm = Ok d ->
  nth_error (rows_of wb t0) p = Some r ->
  (is_node_type (r_type r) = true \/ r_type r = THardExit \/ r_type r = TLooseExit \/ r_type r = TNoOp) ->
  r_edges r = e0 :: more ->
  evaluated_at fuel wb dm t0 p s bt ->
  strip ghost <> [] -> str_eqb (strip ghost) s_start = false -> ids_get (f_ids s) (strip ghost) = None ->
  compile fuel (set_row wb t0 p (set_first_from r [Lit ghost])) dm = Err EEdgeUnknownRow.
Proof. exact detect_edge_from_unknown_row_partial. Qed.
Print Assumptions c15_detect_edge_from_unknown_row_partial.

Theorem c15_detect_uuid_conflict_partial :
  forall fuel wb dm d t0 p r s bt u g l old,
    compile fuel wb dm = Ok d ->
  nth_error (rows_of wb t0) p = Some r -> (r_type r = TAddGroup \/ r_type r = TRemoveGroup) ->
  evaluated_at fuel wb dm t0 p s bt ->
  mapM (render (f_ctx s)) (r_list r) = Ok (g :: l) ->          (* the group the row names *)
  uget (uu_groups (f_uu s)) g = Some old -> utruthy old = true ->   (* already has a uuid *)
  u <> [] -> uval_eqb (UGiven u) old = false ->                (* a different one is injected *)
  compile fuel (set_row wb t0 p (set_objid r u)) dm = Err EUuidConflict.
Proof. exact detect_uuid_conflict_partial. Qed.
Print Assumptions c15_detect_uuid_conflict_partial.

Theorem c15_detect_mismatched_terminator :
  forall fuel wb dm d t0 p r t1 q1 s1 bt1 o1,
    compile fuel wb dm = Ok d ->
  nth_error (rows_of wb t0) p = Some r ->
  (r_type r = TEndFor \/ r_type r = TEndBlock) ->
  (* the row is read at least once, omitted or not *)
  compile_trap fuel wb dm t0 p false sel_read = Err (TTrap t1 q1 s1 bt1 o1) ->
  compile fuel (set_row wb t0 p (set_type r (match r_type r with TEndFor => TEndBlock | _ => TEndFor end))) dm
  = Err EWrongTerminator.
Proof. exact detect_mismatched_terminator. Qed.
Print Assumptions c15_detect_mismatched_terminator.

Theorem c15_detect_unterminated_block_partial :
  forall fuel wb dm t0 p t1 q1 s1 bt1 o1,
    (* the first read at or after position p of sheet t0 happens inside a block *)
  compile_trap fuel wb dm t0 p true sel_read = Err (TTrap t1 q1 s1 bt1 o1) ->
  bt1 <> BRoot ->
  compile fuel (truncate_sheet wb t0 p) dm = Err EUnterminated.
Proof. exact detect_unterminated_block_partial. Qed.
Print Assumptions c15_detect_unterminated_block_partial.

Theorem c15_detect_overlong_category_partial :
  forall fuel wb dm d t0 p r s bt e0 more nm f0,
    compile fuel wb dm = Ok d ->
  nth_error (rows_of wb t0) p = Some r ->
  is_node_type (r_type r) = true ->
  r_edges r = e0 :: more ->
  evaluated_at fuel wb dm t0 p s bt ->
  nm <> [] -> (c15_max_category_len < N.of_nat (length nm))%N ->
  render (f_ctx s) (e_from e0) = Ok f0 ->
  cat_site s (mkIE f0 (with_name (e_cond e0) nm)) = true ->      (* the edge creates a category here *)
  compile fuel (set_row wb t0 p (set_first_name r nm)) dm = Err ECatName.
Proof. exact detect_overlong_category_partial. Qed.
Print Assumptions c15_detect_overlong_category_partial.

Theorem c15_detect_no_content_index :
  forall fuel wb dm,
    wb_get wb s_content_index = None -> compile fuel wb dm = Err ENoIndex.
Proof. exact detect_no_content_index. Qed.
Print Assumptions c15_detect_no_content_index.

Theorem c15_index_fault_fatal :
  forall fuel wb dm pre r post st c,
    wb_get wb s_content_index = Some (SIndex (pre ++ r :: post)) ->
  process_index (S fuel) (erase wb) dm pre is0 = Ok st ->
  index_step (process_index fuel (erase wb) dm) (erase wb) dm st r = Err c ->
  compile (S fuel) wb dm = Err c.
Proof. exact index_fault_fatal. Qed.
Print Assumptions c15_index_fault_fatal.

Theorem c15_detect_missing_sheet_partial :
  forall fuel wb dm pre r post st name,
    wb_get wb s_content_index = Some (SIndex (pre ++ r :: post)) ->
  process_index (S fuel) (erase wb) dm pre is0 = Ok st ->
  x_draft r = false -> x_sheets r = [name] ->
  (x_type r = ITemplateDef \/ x_type r = ICampaign \/ x_type r = ITriggers \/ x_type r = IContentIndex) ->
  wb_get wb name = None ->
  compile (S fuel) wb dm = Err ESheetNotFound.
Proof. exact detect_missing_sheet_partial. Qed.
Print Assumptions c15_detect_missing_sheet_partial.

Theorem c15_detect_unknown_operation :
  forall fuel wb dm pre r post st,
    wb_get wb s_content_index = Some (SIndex (pre ++ r :: post)) ->
  process_index (S fuel) (erase wb) dm pre is0 = Ok st ->
  x_draft r = false -> x_type r = IDataSheet -> x_sheets r <> [] -> x_op r = OpOther -> x_new r <> [] ->
  compile (S fuel) wb dm = Err EUnknownOp.
Proof. exact detect_unknown_operation. Qed.
Print Assumptions c15_detect_unknown_operation.

Theorem c15_detect_unknown_data_model_partial :
  forall fuel wb defined pre r post st name more,
    wb_get wb s_content_index = Some (SIndex (pre ++ r :: post)) ->
  process_index (S fuel) (erase wb) (Some defined) pre is0 = Ok st ->
  x_draft r = false -> x_type r = IDataSheet -> x_sheets r = name :: more ->
  (x_op r = OpNone \/ (x_op r = OpConcat /\ x_new r <> [])) ->
  aget (is_data st) name = None ->
  x_model r <> [] -> mem_str (x_model r) defined = false ->
  compile (S fuel) wb (Some defined) = Err EDataModel.
Proof. exact detect_unknown_data_model_partial. Qed.
Print Assumptions c15_detect_unknown_data_model_partial.

Theorem c15_flow_def_fault_fatal :
  forall fuel wb dm st pre d post cs c,
    index_phase fuel (erase wb) dm = Ok st ->
  is_flows st = pre ++ d :: post ->
  foldM (flow_def_step cls (fun c => c) (visit_of wb) fuel st) pre (mkCS uu0 [] 0) = Ok cs ->
  flow_def_step cls (fun c => c) (visit_of wb) fuel st cs d = Err c ->
  compile fuel wb dm = Err c.
Proof. exact flow_def_fault_fatal. Qed.
Print Assumptions c15_flow_def_fault_fatal.

Theorem c15_detect_missing_data_row_partial :
  forall fuel wb dm st pre d post cs,
    index_phase fuel (erase wb) dm = Ok st ->
  is_flows st = pre ++ d :: post ->
  foldM (flow_def_step cls (fun c => c) (visit_of wb) fuel st) pre (mkCS uu0 [] 0) = Ok cs ->
  fd_dsheet d <> [] ->
  (aget (is_data st) (fd_dsheet d) = None \/
   (fd_drow d <> [] /\ exists ds, aget (is_data st) (fd_dsheet d) = Some ds /\ aget (ds_rows ds) (fd_drow d) = None)) ->
  compile fuel wb dm = Err EKeyData.
Proof. exact detect_missing_data_row_partial. Qed.
Print Assumptions c15_detect_missing_data_row_partial.

Theorem c15_detect_template_argument_missing_partial :
  forall fuel wb dm st pre d post cs defs a more,
    index_phase fuel (erase wb) dm = Ok st ->
  is_flows st = pre ++ d :: post ->
  foldM (flow_def_step cls (fun c => c) (visit_of wb) fuel st) pre (mkCS uu0 [] 0) = Ok cs ->
  fd_dsheet d = [] -> fd_drow d = [] ->
  aget (is_templates st) (fd_sheet d) = Some defs -> defs = a :: more ->
  hd [] (fd_targs d) = [] -> ad_default a = [] ->
  compile fuel wb dm = Err EArgMissing.
Proof. exact detect_template_argument_missing_partial. Qed.
Print Assumptions c15_detect_template_argument_missing_partial.

Theorem c15_detect_template_argument_double_partial :
  forall fuel wb dm st pre d post cs a b more,
    index_phase fuel (erase wb) dm = Ok st ->
  is_flows st = pre ++ d :: post ->
  foldM (flow_def_step cls (fun c => c) (visit_of wb) fuel st) pre (mkCS uu0 [] 0) = Ok cs ->
  fd_dsheet d = [] -> fd_drow d = [] ->
  aget (is_templates st) (fd_sheet d) = Some (a :: b :: more) ->
  (hd [] (fd_targs d) <> [] \/ ad_default a <> []) ->
  ad_name b = ad_name a ->
  compile fuel wb dm = Err EArgDouble.
Proof. exact detect_template_argument_double_partial. Qed.
Print Assumptions c15_detect_template_argument_double_partial.

Theorem c15_trigger_fault_fatal :
  forall fuel wb dm st cs uu uu1 uu2 tpre name rpre r rpost tpost uu3 uu4,
    index_phase fuel (erase wb) dm = Ok st ->
  flows_phase cls (fun c => c) (visit_of wb) fuel st = Ok cs ->
  add_flows cs = Ok uu ->
  foldM (fun _ camp => campaign_ok (snd (snd camp))) (is_camps st) tt = Ok tt ->
  foldM (fun _ ts => triggers_ok (snd ts)) (is_trigs st) tt = Ok tt ->
  foldM (fun u nf => foldM record (snd (snd nf)) u) (cs_flows cs) uu = Ok uu1 ->
  foldM campaign_record (is_camps st) uu1 = Ok uu2 ->
  is_trigs st = tpre ++ (name, rpre ++ r :: rpost) :: tpost ->
  foldM (fun u ts => foldM trigger_record (snd ts) u) tpre uu2 = Ok uu3 ->
  foldM trigger_record rpre uu3 = Ok uu4 ->
  has_flow uu4 (tr_flow r) = false ->
  compile fuel wb dm = Err ETriggerFlow.
Proof. exact trigger_fault_fatal. Qed.
Print Assumptions c15_trigger_fault_fatal.

Theorem c15_detect_flow_uuid_conflict_partial :
  forall fuel wb dm d t0 p r s bt u name old,
    compile fuel wb dm = Ok d ->
  nth_error (rows_of wb t0) p = Some r -> r_type r = TStartFlow ->
  evaluated_at fuel wb dm t0 p s bt ->
  render (f_ctx s) (r_main r) = Ok name ->
  uget (uu_flows (f_uu s)) name = Some old -> utruthy old = true ->
  u <> [] -> uval_eqb (UGiven u) old = false ->
  compile fuel (set_row wb t0 p (set_objid r u)) dm = Err EUuidConflict.
Proof. exact detect_flow_uuid_conflict_partial. Qed.
Print Assumptions c15_detect_flow_uuid_conflict_partial.

Theorem c15_detect_missing_flow_sheet :
  forall fuel wb dm rows st fpre d fpost st',
    wb_get wb s_content_index = Some (SIndex rows) ->
  process_index fuel (erase wb) dm rows is0 = Ok st ->
  is_flows st = fpre ++ d :: fpost ->
  foldM (fun s0 d0 => add_template (erase wb) s0 (fd_sheet d0) (fd_argdefs d0) false) fpre st = Ok st' ->
  aget (is_templates st') (fd_sheet d) = None ->
  wb_get wb (fd_sheet d) = None ->
  compile fuel wb dm = Err ESheetNotFound.
Proof. exact detect_missing_flow_sheet. Qed.
Print Assumptions c15_detect_missing_flow_sheet.

Theorem c15_detect_template_argument_in_data_row :
  forall fuel wb dm st pre d post cs ds c defs a more,
    index_phase fuel (erase wb) dm = Ok st ->
  is_flows st = pre ++ d :: post ->
  foldM (flow_def_step cls (fun c => c) (visit_of wb) fuel st) pre (mkCS uu0 [] 0) = Ok cs ->
  fd_dsheet d <> [] -> fd_drow d <> [] ->
  aget (is_data st) (fd_dsheet d) = Some ds -> aget (ds_rows ds) (fd_drow d) = Some c ->
  aget (is_templates st) (fd_sheet d) = Some defs -> defs = a :: more ->
  chas c (ad_name a) = true ->
  compile fuel wb dm = Err EArgDouble.
Proof. exact detect_template_argument_in_data_row. Qed.
Print Assumptions c15_detect_template_argument_in_data_row.

(* ---- the command however it is started.  `log_configs` = the regenerated table c15_log_configs: one row per invocation
        environment the translator DISCOVERED in the tree at hand (every environment variable the package reads x plausible
        values, the working directory where the log file is opened, every option of the subcommand) and probed on the real
        rpft.cli.main(): which handlers see the records of logger "main", from which level each ends the process and with
        which status.  `compile = Err c` already means "under every such configuration": Io/CliFlow.v site_stops asks
        every_config_stops_at of the level of the site. *)
Theorem c15_log_model_tied :
  (* the Gallina dispatch (Logger.log: level, then the handlers in order) gives what the probe saw through logger.log *)
  forallb log_model_agrees log_configs = true.
Proof. exact log_model_tied. Qed.
Print Assumptions c15_log_model_tied.

Theorem c15_every_reachable_config_terminates :
  (* every configuration that gets as far as the library call installs a terminating handler: the first handler that
     ends the process at CRITICAL does so with a non-zero status, and the logger lets CRITICAL records through *)
  forall cfg, In cfg log_configs -> started cfg = true ->
  exists pre t e post,
    lc_handlers cfg = pre ++ (t, e) :: post /\ (t <= lvl_critical)%N /\ e <> 0%N /\
    (forall t' e', In (t', e') pre -> (lvl_critical < t')%N) /\
    (lc_level cfg <= lvl_critical)%N /\ log_at cfg lvl_critical = Some e.
Proof. exact reachable_config_terminates. Qed.
Print Assumptions c15_every_reachable_config_terminates.

Theorem c15_cli_error_no_file_every_config :
  forall cfg fuel wb dm out f c,
    In cfg log_configs ->
    compile fuel wb dm = Err c ->
  exists st, cli_in cfg fuel wb dm out f = Some (st, f) /\ (lc_start cfg <> 2%N -> st <> 0%N).
Proof. exact cli_in_error_no_file. Qed.
Print Assumptions c15_cli_error_no_file_every_config.

Theorem c15_cli_not_started_untouched :
  (* e.g. the log file cannot be opened: the command ends before it reads anything and writes nothing *)
  forall cfg fuel wb dm out f,
    In cfg log_configs -> started cfg = false ->
  cli_in cfg fuel wb dm out f = Some (snd (lc_observed cfg), f).
Proof. exact cli_in_not_started_untouched. Qed.
Print Assumptions c15_cli_not_started_untouched.

Theorem c15_cli_ok_complete_config_partial :
  (* partial: only configurations that end the process at the same level as the default one; a stricter configuration
     may stop at a warning, which the compile model does not know *)
  forall cfg fuel wb dm out f d,
    started cfg = true -> like_default cfg = true ->
    compile fuel wb dm = Ok d ->
  cli_in cfg fuel wb dm out f = Some (0%N, fs_write f out (serialize (doc_json d))).
Proof. exact cli_in_ok_complete. Qed.
Print Assumptions c15_cli_ok_complete_config_partial.

Theorem c15_cli_output_old_or_complete_every_config :
  forall cfg fuel wb dm out f st f',
    In cfg log_configs ->
    cli_in cfg fuel wb dm out f = Some (st, f') ->
  f' = f \/ exists d, compile fuel wb dm = Ok d /\ f' = fs_write f out (serialize (doc_json d)).
Proof. exact cli_in_output_old_or_complete. Qed.
Print Assumptions c15_cli_output_old_or_complete_every_config.

Theorem c15_cli_default_config :
  (* configuration 0 (nothing set, fresh working directory) is the command of Io/Cli.v *)
  exists cfg, find_config 0 = Some cfg /\ In cfg log_configs /\ started cfg = true /\ like_default cfg = true /\
              forall fuel wb dm out f, cli_in cfg fuel wb dm out f = Some (cli fuel wb dm out f).
Proof. exact cli_in_default. Qed.
Print Assumptions c15_cli_default_config.

Example c15_configs_nonvacuous :
  exists cfg, In cfg log_configs /\ lc_id cfg = 0%N /\ started cfg = true /\ like_default cfg = true /\
              stops_at cfg lvl_critical = true.
Proof. exact configs_nonvacuous. Qed.
Print Assumptions c15_configs_nonvacuous.

(* ---- non-vacuity: a concrete workbook (CliExamples.v) satisfying the hypotheses *)
From Coq Require Import String.
Local Open Scope string_scope.
Local Open Scope list_scope.

Example c15_cli_error_no_file_nonvacuous :
    exists c, compile ex_fuel (set_row ex_wb B 2 (set_main (nth 2 flowB_rows (row_ TSend [] [] [])) [])) None = Err c.
Proof. exact cli_error_no_file_nonvacuous. Qed.
Print Assumptions c15_cli_error_no_file_nonvacuous.

Example c15_cli_ok_complete_nonvacuous :
    compile ex_fuel ex_wb None = Ok ex_doc /\ names_ok ex_doc = true.
Proof. exact cli_ok_complete_nonvacuous. Qed.
Print Assumptions c15_cli_ok_complete_nonvacuous.

Example c15_fault_fatal_nonvacuous :
    (* a row inside a loop of the second flow definition (the first precedes it, and the row is
     reached in the first iteration for the first data row) *)
  evaluated_at ex_fuel ex_wb None B 2 (trap_state (ev B 2)) (trap_bt (ev B 2)) /\
  trap_bt (ev B 2) = BFor /\
  cget (f_ctx (trap_state (ev B 2))) (S_ "x") = Some (S_ "p") /\
  cget (f_ctx (trap_state (ev B 2))) (S_ "label") = Some (S_ "one").
Proof. exact fault_fatal_nonvacuous. Qed.
Print Assumptions c15_fault_fatal_nonvacuous.

Example c15_detect_empty_text_nonvacuous :
    nth_error (rows_of ex_wb B) 2 = Some (nth 2 flowB_rows (row_ TSend [] [] [])) /\
  evaluated_at ex_fuel ex_wb None B 2 (trap_state (ev B 2)) (trap_bt (ev B 2)) /\
  compile ex_fuel (set_row ex_wb B 2 (set_main (nth 2 flowB_rows (row_ TSend [] [] [])) [])) None = Err EEmptyText.
Proof. exact detect_empty_text_nonvacuous. Qed.
Print Assumptions c15_detect_empty_text_nonvacuous.

Example c15_detect_overlong_value_nonvacuous :
    evaluated_at ex_fuel ex_wb None B 3 (trap_state (ev B 3)) (trap_bt (ev B 3)) /\
  too_long (strip (repeat 118%N 641)) = true /\
  compile ex_fuel (set_row ex_wb B 3 (set_main (nth 3 flowB_rows (row_ TSend [] [] [])) [Lit (repeat 118%N 641)])) None
  = Err EValueTooLong /\
  (* 640 characters are accepted: the limit is the regenerated one *)
  compile ex_fuel (set_row ex_wb B 3 (set_main (nth 3 flowB_rows (row_ TSend [] [] [])) [Lit (repeat 118%N 640)])) None
  = Ok ex_doc.
Proof. exact detect_overlong_value_nonvacuous. Qed.
Print Assumptions c15_detect_overlong_value_nonvacuous.

Example c15_detect_webhook_headers_nonvacuous :
    evaluated_at ex_fuel ex_wb None B 6 (trap_state (ev B 6)) (trap_bt (ev B 6)) /\
  headers_ok [HStr (S_ "Authorization")] = false /\
  compile ex_fuel (set_row ex_wb B 6 (set_headers (nth 6 flowB_rows (row_ TSend [] [] [])) [HStr (S_ "Authorization")])) None
  = Err EHeaders.
Proof. exact detect_webhook_headers_nonvacuous. Qed.
Print Assumptions c15_detect_webhook_headers_nonvacuous.

Example c15_detect_loop_without_variable_nonvacuous :
    evaluated_at ex_fuel ex_wb None B 1 (trap_state (ev B 1)) (trap_bt (ev B 1)) /\
  compile ex_fuel (set_row ex_wb B 1 (set_vars (nth 1 flowB_rows (row_ TSend [] [] [])) [])) None = Err ENoLoopVar.
Proof. exact detect_loop_without_variable_nonvacuous. Qed.
Print Assumptions c15_detect_loop_without_variable_nonvacuous.

Example c15_detect_goto_arity_nonvacuous :
    evaluated_at ex_fuel ex_wb None B 8 (trap_state (ev B 8)) (trap_bt (ev B 8)) /\
  edges_read (f_ctx (trap_state (ev B 8))) (nth 8 flowB_rows (row_ TSend [] [] [])) = Ok [mkIE [] no_cond] /\
  compile ex_fuel (set_row ex_wb B 8 (set_list (nth 8 flowB_rows (row_ TSend [] [] [])) (map (fun s => [Lit s]) [S_ "a"; S_ "a"]))) None
  = Err EGotoArity.
Proof. exact detect_goto_arity_nonvacuous. Qed.
Print Assumptions c15_detect_goto_arity_nonvacuous.

(* a go_to row with a blank padding cell in a third edge column: read and judged as the tree at hand does *)
Example c15_goto_padding_follows_the_tree :
  compile ex_fuel pad_wb None = Ok pad_doc /\
  evaluated_at ex_fuel pad_wb None P 4 (trap_state evP) (trap_bt evP) /\
  List.length (r_edges pad_row) = 3 /\
  edges_read (f_ctx (trap_state evP)) pad_row
  = Ok (if padding_edges_dropped_at_read
        then [mkIE (S_ "a2") no_cond; mkIE (S_ "a3") no_cond]
        else [mkIE (S_ "a2") no_cond; mkIE (S_ "a3") no_cond; mkIE [] no_cond]) /\
  compile ex_fuel (set_row pad_wb P 4 (set_list pad_row (map (fun s => [Lit s]) [S_ "a1"; S_ "a1"]))) None
  = (if padding_edges_dropped_at_read then Ok pad_doc else Err EGotoArity) /\
  compile ex_fuel (set_row pad_wb P 4 (set_list pad_row (map (fun s => [Lit s]) [S_ "a1"; S_ "a1"; S_ "a1"]))) None
  = (if padding_edges_dropped_at_read then Err EGotoArity else Ok pad_doc) /\
  compile ex_fuel (set_row pad_wb P 4 (set_list pad_row (map (fun s => [Lit s]) [S_ "a1"; S_ "a1"; S_ "a1"; S_ "a1"]))) None
  = Err EGotoArity.
Proof. exact goto_padding_follows_the_tree. Qed.
Print Assumptions c15_goto_padding_follows_the_tree.

Example c15_detect_edge_from_unknown_row_nonvacuous :
    evaluated_at ex_fuel ex_wb None B 7 (trap_state (ev B 7)) (trap_bt (ev B 7)) /\
  ids_get (f_ids (trap_state (ev B 7))) (strip (S_ "ghost")) = None /\
  ids_get (f_ids (trap_state (ev B 7))) (S_ "h") <> None /\
  compile ex_fuel (set_row ex_wb B 7 (set_first_from (nth 7 flowB_rows (row_ TSend [] [] [])) [Lit (S_ "ghost")])) None
  = Err EEdgeUnknownRow.
Proof. exact detect_edge_from_unknown_row_nonvacuous. Qed.
Print Assumptions c15_detect_edge_from_unknown_row_nonvacuous.

Example c15_detect_overlong_category_nonvacuous :
    evaluated_at ex_fuel ex_wb None A 2 (trap_state (ev A 2)) (trap_bt (ev A 2)) /\
  cat_site (trap_state (ev A 2)) (mkIE (S_ "w") (with_name (mkCond (S_ "yes") [] [] (S_ "Yes")) (repeat 78%N 116))) = true /\
  compile ex_fuel (set_row ex_wb A 2 (set_first_name (nth 2 flowA_rows (row_ TSend [] [] [])) (repeat 78%N 116))) None = Err ECatName /\
  compile ex_fuel (set_row ex_wb A 2 (set_first_name (nth 2 flowA_rows (row_ TSend [] [] [])) (repeat 78%N 115))) None = Ok ex_doc.
Proof. exact detect_overlong_category_nonvacuous. Qed.
Print Assumptions c15_detect_overlong_category_nonvacuous.

Example c15_detect_uuid_conflict_nonvacuous :
    evaluated_at ex_fuel ex_wb None B 11 (trap_state (ev B 11)) (trap_bt (ev B 11)) /\
  uget (uu_groups (f_uu (trap_state (ev B 11)))) (S_ "vip") = Some (UGiven (S_ "11111111-1111-4111-8111-111111111111")) /\
  compile ex_fuel (set_row ex_wb B 11 (set_objid (nth 11 flowB_rows (row_ TSend [] [] [])) (S_ "22222222-2222-4222-8222-222222222222"))) None
  = Err EUuidConflict.
Proof. exact detect_uuid_conflict_nonvacuous. Qed.
Print Assumptions c15_detect_uuid_conflict_nonvacuous.

Example c15_detect_mismatched_terminator_nonvacuous :
    (exists s, compile_trap ex_fuel ex_wb None B 4 false sel_read = Err (TTrap B 4 s BFor false)) /\
  compile ex_fuel (set_row ex_wb B 4 (set_type (nth 4 flowB_rows (row_ TSend [] [] [])) TEndBlock)) None = Err EWrongTerminator.
Proof. exact detect_mismatched_terminator_nonvacuous. Qed.
Print Assumptions c15_detect_mismatched_terminator_nonvacuous.

Example c15_detect_unterminated_block_nonvacuous :
    (exists s, compile_trap ex_fuel ex_wb None B 11 true sel_read = Err (TTrap B 11 s BBlock false)) /\
  compile ex_fuel (truncate_sheet ex_wb B 11) None = Err EUnterminated /\
  (* cut at the root: nothing is detected, the shorter sheet is a valid sheet *)
  (exists s, compile_trap ex_fuel ex_wb None B 10 true sel_read = Err (TTrap B 10 s BRoot false)) /\
  is_ok (compile ex_fuel (truncate_sheet ex_wb B 10) None) = true.
Proof. exact detect_unterminated_block_nonvacuous. Qed.
Print Assumptions c15_detect_unterminated_block_nonvacuous.

Example c15_not_evaluated_row :
    ev B 9 = Ok ex_doc /\
  compile ex_fuel (set_row ex_wb B 9 (set_main (nth 9 flowB_rows (row_ TSend [] [] [])) [])) None = Ok ex_doc.
Proof. exact not_evaluated_row. Qed.
Print Assumptions c15_not_evaluated_row.

Example c15_detect_no_content_index_nonvacuous :
    wb_get (tl ex_wb) s_content_index = None /\ compile ex_fuel (tl ex_wb) None = Err ENoIndex.
Proof. exact detect_no_content_index_nonvacuous. Qed.
Print Assumptions c15_detect_no_content_index_nonvacuous.

Example c15_index_fault_fatal_nonvacuous :
    let wb' := set_index ex_wb (firstn 5 ex_index ++ [ix_missing]) in
  wb_get wb' s_content_index = Some (SIndex (firstn 5 ex_index ++ ix_missing :: [])) /\
  is_ok (process_index ex_fuel (erase wb') None (firstn 5 ex_index) is0) = true /\
  wb_get (erase wb') (S_ "no_such_sheet") = None /\
  compile ex_fuel wb' None = Err ESheetNotFound.
Proof. exact index_fault_fatal_nonvacuous. Qed.
Print Assumptions c15_index_fault_fatal_nonvacuous.

Example c15_index_step_unknown_operation_nonvacuous :
    compile ex_fuel (set_index ex_wb (ix_badop :: ex_index)) None = Err EUnknownOp.
Proof. exact index_step_unknown_operation_nonvacuous. Qed.
Print Assumptions c15_index_step_unknown_operation_nonvacuous.

Example c15_index_step_unknown_data_model_nonvacuous :
    compile ex_fuel (set_index ex_wb (ix_badmodel :: tl ex_index)) (Some [S_ "SomeModel"]) = Err EDataModel /\
  (* without --datamodels the name is ignored by the tool *)
  compile ex_fuel (set_index ex_wb (ix_badmodel :: tl ex_index)) None = Ok ex_doc.
Proof. exact index_step_unknown_data_model_nonvacuous. Qed.
Print Assumptions c15_index_step_unknown_data_model_nonvacuous.

Example c15_flow_def_fault_fatal_nonvacuous :
    (* the data row named by the THIRD flow definition does not exist: the two before compile *)
  let bad := mkIx ICreateFlow false [S_ "flowB"] (S_ "again") (S_ "data1") (S_ "r9") [[]] [] [] OpNone [] in
  compile ex_fuel (set_index ex_wb (firstn 4 ex_index ++ bad :: skipn 4 ex_index)) None = Err EKeyData.
Proof. exact flow_def_fault_fatal_nonvacuous. Qed.
Print Assumptions c15_flow_def_fault_fatal_nonvacuous.

Example c15_flow_def_arg_missing_nonvacuous :
    let bad := mkIx ICreateFlow false [S_ "tmpl"] (S_ "noarg") [] [] [[]] [] [] OpNone [] in
  compile ex_fuel (set_index ex_wb (firstn 5 ex_index ++ bad :: skipn 5 ex_index)) None = Err EArgMissing.
Proof. exact flow_def_arg_missing_nonvacuous. Qed.
Print Assumptions c15_flow_def_arg_missing_nonvacuous.

Example c15_flow_def_arg_double_nonvacuous :
    let def2 := mkIx ITemplateDef false [S_ "tmpl"] [] [] [] [] [mkAD (S_ "arg0") []; mkAD (S_ "arg0") []] [] OpNone [] in
  compile ex_fuel (set_index ex_wb (firstn 1 ex_index ++ def2 :: skipn 2 ex_index)) None = Err EArgDouble.
Proof. exact flow_def_arg_double_nonvacuous. Qed.
Print Assumptions c15_flow_def_arg_double_nonvacuous.

Example c15_trigger_fault_fatal_nonvacuous :
    let wb' := map (fun ns => if str_eqb (fst ns) (S_ "trig")
                            then (fst ns, STriggers [mkTR true [S_ "join"] (S_ "flowA") [] []; mkTR false [] (S_ "no such flow") [] []])
                            else ns) ex_wb in
  compile ex_fuel wb' None = Err ETriggerFlow.
Proof. exact trigger_fault_fatal_nonvacuous. Qed.
Print Assumptions c15_trigger_fault_fatal_nonvacuous.



Example c15_parse_serialize_nonvacuous :
  json_ok CliJsonFacts.ex_doc = true /\ parse_json (serialize CliJsonFacts.ex_doc) = Some CliJsonFacts.ex_doc.
Proof. exact parse_serialize_nonvacuous. Qed.
Print Assumptions c15_parse_serialize_nonvacuous.

(* why the round trip needs strings of scalar values: a lone surrogate pair reads back as one character *)
Example c15_surrogate_not_roundtrip :
  parse_json (serialize (JStr [55357; 56832]%N)) <> Some (JStr [55357; 56832]%N).
Proof. exact surrogate_not_roundtrip. Qed.
Print Assumptions c15_surrogate_not_roundtrip.

Example c15_detect_flow_uuid_conflict_nonvacuous :
    evaluated_at ex_fuel ex_wb None A 6 (trap_state (ev A 6)) (trap_bt (ev A 6)) /\
  uget (uu_flows (f_uu (trap_state (ev A 6)))) (S_ "child") = Some (UGiven (S_ "33333333-3333-4333-8333-333333333333")) /\
  compile ex_fuel (set_row ex_wb A 6 (set_objid (nth 6 flowA_rows (row_ TSend [] [] [])) (S_ "44444444-4444-4444-8444-444444444444"))) None
  = Err EUuidConflict.
Proof. exact detect_flow_uuid_conflict_nonvacuous. Qed.
Print Assumptions c15_detect_flow_uuid_conflict_nonvacuous.

Example c15_detect_missing_flow_sheet_nonvacuous :
    let bad := ix_ ICreateFlow ["no_such_flow_sheet"] in
  is_ok (process_index ex_fuel (erase (set_index ex_wb (ex_index ++ [bad]))) None (ex_index ++ [bad]) is0) = true /\
  compile ex_fuel (set_index ex_wb (ex_index ++ [bad])) None = Err ESheetNotFound.
Proof. exact detect_missing_flow_sheet_nonvacuous. Qed.
Print Assumptions c15_detect_missing_flow_sheet_nonvacuous.

Example c15_detect_template_argument_in_data_row_nonvacuous :
    (* the template of the second flow definition declares an argument called like a column of its data sheet *)
  let def := mkIx ITemplateDef false [S_ "flowB"] [] [] [] [] [mkAD (S_ "label") (S_ "dflt")] [] OpNone [] in
  compile ex_fuel (set_index ex_wb (def :: ex_index)) None = Err EArgDouble.
Proof. exact detect_template_argument_in_data_row_nonvacuous. Qed.
Print Assumptions c15_detect_template_argument_in_data_row_nonvacuous.
