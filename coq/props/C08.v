(* C08 — cell syntax is an unambiguous, escapable encoding of nested lists.
   Only property theorems here, each closed by [exact] and followed by Print Assumptions. *)
From Coq Require Import List NArith ZArith Bool.
From RPFT Require Import Base.Sexp Base.PyStr Base.Result Gen.Tables Cell.Cell Cell.CellFacts
  Tmpl.MiniJinja Cell.CellParseFacts Cell.CellSession Cell.CellSessionFacts.
Import ListNotations.
Local Open Scope N_scope.

(* 1. every string survives join + split, trimmed.
   str_ok s = "s does not contain the temporary character of cleanse, IF cleanse has one"
   (cleanse_tmp, regenerated from the code): constantly true on the repaired tree, see 6. *)
Theorem C08_string_roundtrip : forall s,
  str_ok s = true ->
  join_from_lists 0 (Str s) = Some (escape s) /\ split_into_lists (escape s) = Str (strip s).
Proof. exact string_roundtrip. Qed.
Print Assumptions C08_string_roundtrip.

(* 2. every nested list up to depth two (non-empty lists, not ending in the empty string) *)
Theorem C08_list_roundtrip : forall v,
  wfb v = true -> exists txt, join_from_lists 0 v = Some txt /\ split_into_lists txt = trim v.
Proof. exact list_roundtrip. Qed.
Print Assumptions C08_list_roundtrip.

(* 3. no unescaped separator <-> plain string *)
Theorem C08_no_sep_is_string : forall s,
  no_unescaped_sep s -> split_into_lists s = Str (cleanse_str s).
Proof. exact no_sep_is_string. Qed.
Print Assumptions C08_no_sep_is_string.

Theorem C08_unescaped_sep_is_list : forall s,
  ~ no_unescaped_sep s -> exists l, split_into_lists s = Lst l.
Proof. exact unescaped_sep_is_list. Qed.
Print Assumptions C08_unescaped_sep_is_list.

(* 4. the escape filter makes substituted data inert with respect to splitting *)
Theorem C08_escape_inert : forall sep pre d post,
  is_a_sep sep -> ends_escaped pre = false ->
  segs sep (pre ++ escape d ++ post) = glue (segs sep pre) (glue [escape d] (segs sep post))
  /\ ends_escaped (pre ++ escape d) = false
  /\ length (segs sep (pre ++ escape d ++ post)) = length (segs sep (pre ++ post)).
Proof. exact escape_inert. Qed.
Print Assumptions C08_escape_inert.

(* escape_string as coded (three replaces) is the one-pass escape the theorems speak of *)
Theorem C08_escape_string_one_pass : forall s, escape_string s = escape s.
Proof. exact escape_string_one_pass. Qed.
Print Assumptions C08_escape_string_one_pass.

(* the regenerated constants satisfy what the proofs need *)
Theorem C08_tables_ok : cell_tables_ok = true.
Proof. exact cell_tables_ok_true. Qed.
Print Assumptions C08_tables_ok.

(* 6. the statement at FULL strength (every string; every list of the property's shape, no condition
   on the strings), decided for the code of this run: it HOLDS when cleanse has no temporary character
   (the tree with the one-pass un-escape), it is REFUTED by the string [t] when cleanse parks escaped
   backslashes in a character t (the defect "value-contains-U+0001" of the three-replace cleanse). *)
Theorem C08_full_roundtrip_decided :
  match cleanse_tmp with
  | None => string_roundtrip_full /\ list_roundtrip_full
  | Some t => ~ string_roundtrip_full
  end.
Proof. exact full_roundtrip_decided. Qed.
Print Assumptions C08_full_roundtrip_decided.

(* 7. the one-pass un-escape inverts escape on every string ... *)
Theorem C08_unescape_escape : forall s, unescape (escape s) = s.
Proof. exact unescape_escape. Qed.
Print Assumptions C08_unescape_escape.

(* ... and computes what the three-replace un-escape through ANY temporary character t computes, on
   every string that does not contain t: the repair changes no other behaviour *)
Theorem C08_phases_one_pass : forall t, tmp_ok t = true ->
  forall s, mem_char t s = false -> unescape_phases t s = unescape s.
Proof. exact phases_one_pass. Qed.
Print Assumptions C08_phases_one_pass.

Example C08_phases_one_pass_nonvacuous :
  tmp_ok 1 = true /\ mem_char 1 [92; 92; 92; 124; 97; 92; 59; 92] = false
  /\ unescape [92; 92; 92; 124; 97; 92; 59; 92] = [92; 124; 97; 59; 92].
Proof. exact phases_one_pass_example. Qed.
Print Assumptions C08_phases_one_pass_nonvacuous.

(* the value of the finding and a list holding it, computed *)
Example C08_u0001_roundtrip :
  let v := Lst [Str [1]; Lst [Str [92; 1; 124]; Str [1; 1]]] in
  match cleanse_tmp with
  | None => split_into_lists (escape [1]) = Str [1]
            /\ match join_from_lists 0 v with Some t => split_into_lists t = v | None => False end
  | Some t => split_into_lists (escape [t]) = Str [esc_char]
  end.
Proof. exact u0001_roundtrip. Qed.
Print Assumptions C08_u0001_roundtrip.

(* 8. lists that END IN A BLANK element — outside the domain of the property (statement 2), but what a packed
   row model with an empty str field needs (C07, finding packed-model-blank-value-under-nonblank-default).
   wfb_any = wfb without the condition on the last element.  Decided by the probed constant
   join_keeps_blank_last (translator/tables_rowfix.py): on the repaired tree join_from_lists writes a trailing
   separator after an empty last part and EVERY such list comes back; on the other tree [a, ""] is written a|
   and read back as [a]. *)
Theorem C08_blank_last_roundtrip_decided :
  if join_keeps_blank_last
  then forall v, wfb_any v = true -> exists txt, join_from_lists 0 v = Some txt /\ split_into_lists txt = trim v
  else ~ (forall v, wfb_any v = true -> exists txt, join_from_lists 0 v = Some txt /\ split_into_lists txt = trim v).
Proof. exact blank_last_roundtrip_decided. Qed.
Print Assumptions C08_blank_last_roundtrip_decided.

Theorem C08_blank_last_witness :
  wfb_any w_blank_last = true /\ wfb w_blank_last = false
  /\ join_from_lists 0 w_blank_last
     = Some (if join_keeps_blank_last then [97; sep0; sep0] else [97; sep0])
  /\ split_into_lists [97; sep0; sep0] = w_blank_last
  /\ split_into_lists [97; sep0] = Lst [Str [97]].
Proof. exact blank_last_witness. Qed.
Print Assumptions C08_blank_last_witness.

(* the domain of the round trip on the tree at hand contains the property's domain (so statement 2 is
   unaffected by the repair) *)
Theorem C08_list_roundtrip_tree : forall v,
  wfb_tree v = true -> exists txt, join_from_lists 0 v = Some txt /\ split_into_lists txt = trim v.
Proof. exact list_roundtrip_tree. Qed.
Print Assumptions C08_list_roundtrip_tree.

Theorem C08_wfb_in_wfb_tree : forall v, wfb v = true -> wfb_tree v = true.
Proof. exact wfb_wfb_tree. Qed.
Print Assumptions C08_wfb_in_wfb_tree.

(* ---- 8. ONE CellParser object working through a history of calls (Cell/CellSession.v: cp_state = what the
   object holds after __init__, cp_op = the calls of the public API, cp_run = a history).
   The object's state after any history is the state it was created with, and every result is the
   result of the same call on the object as created. *)
Theorem C08_history_run_is_map : forall st ops, cp_run st ops = (st, map (cp_apply st) ops).
Proof. exact cp_run_spec. Qed.
Print Assumptions C08_history_run_is_map.

Theorem C08_history_independent : forall st pre op post,
  nth_error (snd (cp_run st (pre ++ op :: post))) (length pre) = Some (cp_apply st op).
Proof. exact cp_history_independent. Qed.
Print Assumptions C08_history_independent.

Theorem C08_same_call_same_result : forall st pre1 pre2 op,
  nth_error (snd (cp_run st (pre1 ++ [op]))) (length pre1)
  = nth_error (snd (cp_run st (pre2 ++ [op]))) (length pre2).
Proof. exact cp_same_call_same_result. Qed.
Print Assumptions C08_same_call_same_result.

(* 9. "templates are expanded before splitting": parse is the split of exactly the string parse_as_string
   hands back (the stripped cell on the fast path, the rendered text otherwise); a native {@ @} result is
   never split; which of the two it is depends on the text of THIS cell only *)
Theorem C08_parse_fast_path : forall fl pe pn octx c,
  fast_path octx (show_cell c) = true ->
  parse_f fl pe pn octx c = Ok (PNv (split_into_lists (strip (show_cell c)))).
Proof. exact parse_fast. Qed.
Print Assumptions C08_parse_fast_path.

Theorem C08_expand_then_split : forall fl pe pn octx c s,
  parse_as_string_f fl pe pn octx c = Ok (PStr s) ->
  parse_f fl pe pn octx c = Ok (PNv (split_into_lists s)).
Proof. exact expand_then_split. Qed.
Print Assumptions C08_expand_then_split.

Theorem C08_native_result_not_split : forall fl pe pn octx c v,
  parse_as_string_f fl pe pn octx c = Ok (PObj v) ->
  parse_f fl pe pn octx c = Ok (PObj v).
Proof. exact native_result_not_split. Qed.
Print Assumptions C08_native_result_not_split.

Theorem C08_result_kind_by_text : forall fl pe pn octx c r,
  parse_as_string_f fl pe pn octx c = Ok r ->
  if fast_path octx (show_cell c) then r = PStr (strip (show_cell c))
  else if is_native_text (show_cell c) then exists v, r = PObj v
  else exists s, r = PStr s.
Proof. exact result_kind_by_text. Qed.
Print Assumptions C08_result_kind_by_text.

(* 10. the statements of 1-3 for PARSE (strip the cell, then split), at any point of any history *)
Theorem C08_string_roundtrip_in_history : forall st pre post octx s,
  str_ok s = true -> fast_path octx (escape s) = true ->
  nth_error (snd (cp_run st (pre ++ OpParse octx (plain_cell (escape s)) :: post))) (length pre)
  = Some (RCell (Ok (PNv (Str (strip s))))).
Proof. exact string_roundtrip_in_history. Qed.
Print Assumptions C08_string_roundtrip_in_history.

(* every nested list (depth <= 2, lists non-empty) whose lists do not end in a BLANK string - wfb v and wfb (trim v) -
   survives join + PARSE (strip the cell, then split), trimmed ... *)
Theorem C08_list_parse_roundtrip : forall v,
  wfb v = true -> wfb (trim v) = true ->
  exists txt, join_from_lists 0 v = Some txt /\ split_into_lists (strip txt) = trim v.
Proof. exact list_parse_roundtrip. Qed.
Print Assumptions C08_list_parse_roundtrip.

(* ... at any point of any history of the parser ... *)
Theorem C08_list_roundtrip_in_history : forall st pre post octx v txt,
  wfb v = true -> wfb (trim v) = true -> join_from_lists 0 v = Some txt -> fast_path octx txt = true ->
  nth_error (snd (cp_run st (pre ++ OpParse octx (plain_cell txt) :: post))) (length pre)
  = Some (RCell (Ok (PNv (trim v)))).
Proof. exact list_roundtrip_in_history. Qed.
Print Assumptions C08_list_roundtrip_in_history.

(* ... and the condition on the trimmed value cannot be dropped (the cell "a| " is stripped before it is split) *)
Example C08_parse_needs_nonblank_last :
  let v := Lst [Str [97]; Str [32]] in
  wfb v = true /\ wfb (trim v) = false
  /\ join_from_lists 0 v = Some [97; 124; 32]
  /\ split_into_lists [97; 124; 32] = trim v
  /\ split_into_lists (strip [97; 124; 32]) = Lst [Str [97]].
Proof. exact parse_needs_nonblank_last. Qed.
Print Assumptions C08_parse_needs_nonblank_last.

Theorem C08_no_sep_is_string_in_history : forall st pre post octx s,
  no_unescaped_sep (strip s) -> fast_path octx s = true ->
  nth_error (snd (cp_run st (pre ++ OpParse octx (plain_cell s) :: post))) (length pre)
  = Some (RCell (Ok (PNv (Str (cleanse_str (strip s)))))).
Proof. exact no_sep_is_string_in_history. Qed.
Print Assumptions C08_no_sep_is_string_in_history.

Theorem C08_unescaped_sep_is_list_in_history : forall st pre post octx s,
  ~ no_unescaped_sep (strip s) -> fast_path octx s = true ->
  exists l, nth_error (snd (cp_run st (pre ++ OpParse octx (plain_cell s) :: post))) (length pre)
            = Some (RCell (Ok (PNv (Lst l)))).
Proof. exact unescaped_sep_is_list_in_history. Qed.
Print Assumptions C08_unescaped_sep_is_list_in_history.

(* a history with a native cell and a failing cell before a plain cell, computed *)
Example C08_history_nonvacuous :
  let native := OpParse (Some []) (CNative (EList [EInt 1%Z; EInt 2%Z])) in
  let failing := OpParseAsString (Some []) (CTmpl [NOut (EVar [120])]) in
  let cell := OpParse (Some []) (plain_cell [97; 124; 98; 92; 59; 99]) in
  snd (cp_run cp_init [native; failing; cell])
  = [RCell (Ok (PObj (VList [VInt 1%Z; VInt 2%Z])));
     RCell (match env_undefined_policy with Strict => Err EUndefined | Lenient => Ok (PStr []) end);
     RCell (Ok (PNv (Lst [Str [97]; Str [98; 59; 99]])))].
Proof. exact history_example. Qed.
Print Assumptions C08_history_nonvacuous.
