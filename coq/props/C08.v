(* C08 — cell syntax is an unambiguous, escapable encoding of nested lists.
   Only property theorems here, each closed by [exact] and followed by Print Assumptions. *)
From Coq Require Import List NArith Bool.
From RPFT Require Import Base.Sexp Base.PyStr Gen.Tables Cell.Cell Cell.CellFacts.
Import ListNotations.

(* 1. every string survives join + split, trimmed *)
Theorem C08_string_roundtrip : forall s,
  mem_char tmp_char s = false ->
  join_from_lists 0 (Str s) = Some (escape s) /\ split_into_lists (escape s) = Str (strip s).
Proof. exact string_roundtrip. Qed.
Print Assumptions C08_string_roundtrip.

(* 2. every nested list up to depth two (non-empty lists, not ending in the empty string) *)
Theorem C08_list_roundtrip : forall v,
  wfb v = true -> exists txt, join_from_lists 0 v = Some txt /\ split_into_lists txt = trim v.
Proof. exact list_roundtrip. Qed.
Print Assumptions C08_list_roundtrip.

(* 3. no unescaped separator <-> plain string *)
Theorem C08_no_sep_is_string : forall s,
  no_unescaped_sep s -> split_into_lists s = Str (cleanse_str s).
Proof. exact no_sep_is_string. Qed.
Print Assumptions C08_no_sep_is_string.

Theorem C08_unescaped_sep_is_list : forall s,
  ~ no_unescaped_sep s -> exists l, split_into_lists s = Lst l.
Proof. exact unescaped_sep_is_list. Qed.
Print Assumptions C08_unescaped_sep_is_list.

(* 4. the escape filter makes substituted data inert with respect to splitting *)
Theorem C08_escape_inert : forall sep pre d post,
  is_a_sep sep -> ends_escaped pre = false ->
  segs sep (pre ++ escape d ++ post) = glue (segs sep pre) (glue [escape d] (segs sep post))
  /\ ends_escaped (pre ++ escape d) = false
  /\ length (segs sep (pre ++ escape d ++ post)) = length (segs sep (pre ++ post)).
Proof. exact escape_inert. Qed.
Print Assumptions C08_escape_inert.

(* escape_string as coded (three replaces) is the one-pass escape the theorems speak of *)
Theorem C08_escape_string_one_pass : forall s, escape_string s = escape s.
Proof. exact escape_string_one_pass. Qed.
Print Assumptions C08_escape_string_one_pass.

(* the regenerated constants satisfy what the proofs need *)
Theorem C08_tables_ok : cell_tables_ok = true.
Proof. exact cell_tables_ok_true. Qed.
Print Assumptions C08_tables_ok.

(* 6. the full statement ("every string") is false of the faithful model: U+0001 *)
Theorem C08_tmp_char_refuted : cleanse_str (escape [tmp_char]) <> strip [tmp_char].
Proof. exact tmp_char_refuted. Qed.
Print Assumptions C08_tmp_char_refuted.
