(* C09 — the same data in different column layouts parses to the same row.
   Only property theorems here, each closed by [exact] and followed by Print Assumptions.
   Relations: Row/Encodes.v (EncNv = one cell, Enc = one slot, Encodes = a sheet row);
   proofs: Row/ParseFold.v, Row/EncodesFacts.v, Row/FlowHeaderFacts.v, Row/EncodesExamples.v. *)
From Coq Require Import String List NArith ZArith Bool.
From RPFT Require Import Base.Sexp Base.PyStr Base.Result Base.ODict Gen.Tables Cell.Cell Row.Ty Row.Layout Row.RowParse
  Row.RowUnparse Row.FlowRow Row.RowFacts Row.ParseFold Row.Encodes Row.EncodesFacts Row.FlowHeaderFacts
  Row.EncodesExamples.
Import ListNotations.

Theorem C09_tables_ok : row_tables_ok = true.
Proof. exact row_tables_ok_true. Qed.
Print Assumptions C09_tables_ok.

(* 1. every legal way of writing a row value (Encodes: per field spread / packed with either
      separator / positional / key;value / mixed / `*` columns / short or long flow headers /
      any interleaving of columns) parses to that value *)
Theorem C09_encodes_parse : forall rm v cells, Encodes rm v cells -> parse_row rm cells = Ok v.
Proof. exact encodes_parse. Qed.
Print Assumptions C09_encodes_parse.

(* 2. hence the parse depends on the data only *)
Theorem C09_layout_independent : forall rm v c1 c2,
  Encodes rm v c1 -> Encodes rm v c2 -> parse_row rm c1 = parse_row rm c2.
Proof. exact layout_independent. Qed.
Print Assumptions C09_layout_independent.

Example C09_encodes_parse_nonvacuous :
  Encodes rmR vR cells_spread /\ Encodes rmR vR cells_packed /\ Encodes rmR vR cells_star
  /\ cells_spread <> cells_packed /\ cells_packed <> cells_star /\ cells_spread <> cells_star
  /\ parse_row rmR cells_star = Ok vR.
Proof. exact encodes_parse_nonvacuous. Qed.
Print Assumptions C09_encodes_parse_nonvacuous.

Example C09_flow_layout_independent_nonvacuous :
  Encodes flow_row_model flow_value flow_short /\ Encodes flow_row_model flow_value flow_indexed
  /\ flow_short <> flow_indexed /\ flow_parse flow_short = flow_parse flow_indexed.
Proof. exact flow_layout_independent_nonvacuous. Qed.
Print Assumptions C09_flow_layout_independent_nonvacuous.

(* the two projection lemmas all permutation results rest on: the final content of a slot
   depends only on the subsequence of columns that address it *)
Theorem C09_fold_model : forall fields h2f f2h cols d,
  heads_ok fields h2f cols ->
  (forall k ct, field_ty fields k = Some ct ->
                exists o, fold_slot ct (sub_key h2f k cols) (slot d k) = Ok o) ->
  exists d',
    foldM (fa (TModel fields h2f f2h)) cols (ODict d) = Ok (ODict d')
    /\ (forall k ct, field_ty fields k = Some ct ->
                     fold_slot ct (sub_key h2f k cols) (slot d k) = Ok (slot d' k))
    /\ (forall k, sub_key h2f k cols = [] -> dget d' k = dget d k)
    /\ (forall k, sub_key h2f k cols <> [] -> dget d' k = Some (slot d' k)).
Proof. exact fold_model. Qed.
Print Assumptions C09_fold_model.

Theorem C09_fold_list : forall t cols, is_list_ty t = true -> forall l n,
  idx_scan (length l) cols = Some n ->
  (forall i, (i < n)%nat -> exists o, fold_slot (child_ty t) (sub_idx i cols) (nth i l ONone) = Ok o) ->
  exists l',
    foldM (fa t) cols (OList l) = Ok (OList l') /\ length l' = n
    /\ (forall i, (i < n)%nat -> fold_slot (child_ty t) (sub_idx i cols) (nth i l ONone) = Ok (nth i l' ONone)).
Proof. exact fold_list. Qed.
Print Assumptions C09_fold_list.

(* 4. short and long flow headers.  Domain of the finite proof: every entry of the regenerated
      tables cx_basic (short -> long) and cx_sw_table (row type -> main argument field). *)
Theorem C09_short_long_tables_ok : short_long_ok = true.
Proof. exact short_long_ok_true. Qed.
Print Assumptions C09_short_long_tables_ok.

Theorem C09_short_long_headers : forall cells short long,
  oget str_eqb (cx_basic flow_cx) short = Some long ->
  ctx_h2f flow_ctx cells short = Ok long /\ ctx_h2f flow_ctx cells long = Ok long.
Proof. exact short_long_headers. Qed.
Print Assumptions C09_short_long_headers.

Theorem C09_message_text_header : forall cells rt f,
  oget str_eqb cells (cx_sw_column flow_cx) = Some rt ->
  oget str_eqb (cx_sw_table flow_cx) rt = Some f ->
  ctx_h2f flow_ctx cells (cx_sw_header flow_cx) = Ok f /\ ctx_h2f flow_ctx cells f = Ok f.
Proof. exact message_text_header. Qed.
Print Assumptions C09_message_text_header.

(* rows that differ only in the short/long spelling of their headers parse identically —
   for every row, well-formed or not *)
Theorem C09_short_long_layouts : forall cells cells',
  same_row (oget str_eqb cells (cx_sw_column flow_cx)) cells cells' ->
  flow_parse cells = flow_parse cells'.
Proof. exact short_long_layouts. Qed.
Print Assumptions C09_short_long_layouts.

Example C09_short_long_nonvacuous :
  same_row (oget str_eqb flow_short (cx_sw_column flow_cx)) flow_short flow_long
  /\ same_row (oget str_eqb flow_short (cx_sw_column flow_cx)) flow_short flow_mixed
  /\ flow_short <> flow_long
  /\ is_ok (flow_parse flow_short) = true
  /\ flow_parse flow_short = flow_parse flow_long.
Proof. exact short_long_nonvacuous. Qed.
Print Assumptions C09_short_long_nonvacuous.

Example C09_short_long_headers_nonvacuous :
  oget str_eqb (cx_basic flow_cx) (S_ "condition_var") = Some (S_ "edges.*.condition.variable")
  /\ oget str_eqb (cx_basic flow_cx) (S_ "from") = Some (S_ "edges.*.from_")
  /\ oget str_eqb (cx_sw_table flow_cx) (S_ "send_message") = Some (S_ "mainarg_message_text")
  /\ cx_sw_header flow_cx = S_ "message_text" /\ cx_sw_column flow_cx = S_ "type".
Proof. exact short_long_headers_nonvacuous. Qed.
Print Assumptions C09_short_long_headers_nonvacuous.

(* 5. where layout DOES matter in the faithful model.
   (a) a positional record of two entries whose first value is a field name is read as ONE
       key;value pair: the unrestricted claim is refuted, the restricted one holds for all texts *)
Theorem C09_positional_is_spread_refuted : ~ positional_is_spread_full.
Proof. exact positional_is_spread_refuted. Qed.
Print Assumptions C09_positional_is_spread_refuted.

Theorem C09_positional_is_spread_partial : forall a b,
  plain a = true -> plain b = true -> has_field fieldsAB a = false ->
  parse_row rmAB (ab_positional a b) = parse_row rmAB (ab_spread a b).
Proof. exact positional_is_spread_partial. Qed.
Print Assumptions C09_positional_is_spread_partial.

Example C09_positional_is_spread_nonvacuous :
  plain (S_ "c") = true /\ plain (S_ "x") = true /\ has_field fieldsAB (S_ "c") = false
  /\ parse_row rmAB (ab_positional (S_ "c") (S_ "x")) = Ok (rowAB (S_ "c") (S_ "x")).
Proof. exact positional_is_spread_nonvacuous. Qed.
Print Assumptions C09_positional_is_spread_nonvacuous.

Example C09_positional_flip_witness :
  parse_row rmAB (ab_spread (S_ "b") (S_ "x")) = Ok (rowAB (S_ "b") (S_ "x"))
  /\ parse_row rmAB (ab_positional (S_ "b") (S_ "x")) = Ok (rowAB [] (S_ "x")).
Proof. exact positional_flip_witness. Qed.
Print Assumptions C09_positional_flip_witness.

(* (b) the same flip for one entry of a longer positional record *)
Example C09_positional_entry_flip_witness :
  parse_row rmTN [(S_ "m.tags.1", S_ "n"); (S_ "m.tags.2", S_ "x"); (S_ "m.n", S_ "foo")] = Ok (rowTN [S_ "n"; S_ "x"] (S_ "foo"))
  /\ parse_row rmTN [(S_ "m", S_ "n;x|foo")] = Ok (rowTN [] (S_ "foo"))
  /\ parse_row rmTN [(S_ "m", S_ "q;x|foo")] = Ok (rowTN [S_ "q"; S_ "x"] (S_ "foo")).
Proof. exact positional_entry_flip_witness. Qed.
Print Assumptions C09_positional_entry_flip_witness.

(* (c) the short header `message_text` reads the RAW `type` cell: short = long only up to the
       exact text of that cell, not up to the stripping the `type` field itself enjoys *)
Theorem C09_short_header_any_padding_refuted : ~ short_header_any_padding_full.
Proof. exact short_header_any_padding_refuted. Qed.
Print Assumptions C09_short_header_any_padding_refuted.

Example C09_padded_type_witness :
  flow_parse flow_padded_short = Err EKey
  /\ is_ok (flow_parse flow_padded_long) = true
  /\ flow_parse flow_padded_long = flow_parse flow_unpadded_short.
Proof. exact padded_type_witness. Qed.
Print Assumptions C09_padded_type_witness.
