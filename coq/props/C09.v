(* C09 — the same data in different column layouts parses to the same row.
   Only property theorems here, each closed by [exact] and followed by Print Assumptions.
   Relations: Row/Encodes.v (EncNv = one cell, Enc = one slot, Encodes = a sheet row);
   proofs: Row/ParseFold.v, Row/EncodesFacts.v, Row/FlowHeaderFacts.v, Row/EncodesExamples.v, Row/PaddedTypeFacts.v, Row/RawTextFacts.v (texts with backslashes that are not escape sequences). *)
From Coq Require Import String List NArith ZArith Bool.
From RPFT Require Import Base.Sexp Base.PyStr Base.Result Base.ODict Gen.Tables Cell.Cell Row.Ty Row.Layout Row.RowParse
  Row.RowUnparse Row.FlowRow Row.RowFacts Row.ParseFold Row.Encodes Row.EncodesFacts Row.FlowHeaderFacts
  Row.HeaderFacts Row.StarFacts Row.ReorderFacts Row.EncodesExamples Row.PaddedTypeFacts Row.RawTextFacts Cell.CellFacts
  Cell.CellSession Row.RowSession Row.RowSessionFacts.
Import ListNotations.

Theorem C09_tables_ok : row_tables_ok = true.
Proof. exact row_tables_ok_true. Qed.
Print Assumptions C09_tables_ok.

(* 1. every legal way of writing a row value (Encodes: per field spread / packed with either
      separator / positional / key;value / mixed / `*` columns / short or long flow headers /
      any interleaving of columns) parses to that value *)
Theorem C09_encodes_parse : forall rm v cells, Encodes rm v cells -> parse_row rm cells = Ok v.
Proof. exact encodes_parse. Qed.
Print Assumptions C09_encodes_parse.

(* 2. hence the parse depends on the data only *)
Theorem C09_layout_independent : forall rm v c1 c2,
  Encodes rm v c1 -> Encodes rm v c2 -> parse_row rm c1 = parse_row rm c2.
Proof. exact layout_independent. Qed.
Print Assumptions C09_layout_independent.

Example C09_encodes_parse_nonvacuous :
  Encodes rmR vR cells_spread /\ Encodes rmR vR cells_packed /\ Encodes rmR vR cells_star
  /\ cells_spread <> cells_packed /\ cells_packed <> cells_star /\ cells_spread <> cells_star
  /\ parse_row rmR cells_star = Ok vR.
Proof. exact encodes_parse_nonvacuous. Qed.
Print Assumptions C09_encodes_parse_nonvacuous.

Example C09_flow_layout_independent_nonvacuous :
  Encodes flow_row_model flow_value flow_short /\ Encodes flow_row_model flow_value flow_indexed
  /\ flow_short <> flow_indexed /\ flow_parse flow_short = flow_parse flow_indexed.
Proof. exact flow_layout_independent_nonvacuous. Qed.
Print Assumptions C09_flow_layout_independent_nonvacuous.

(* the two projection lemmas all permutation results rest on: the final content of a slot
   depends only on the subsequence of columns that address it *)
Theorem C09_fold_model : forall fields h2f f2h cols d,
  heads_ok fields h2f cols ->
  (forall k ct, field_ty fields k = Some ct ->
                exists o, fold_slot ct (sub_key h2f k cols) (slot d k) = Ok o) ->
  exists d',
    foldM (fa (TModel fields h2f f2h)) cols (ODict d) = Ok (ODict d')
    /\ (forall k ct, field_ty fields k = Some ct ->
                     fold_slot ct (sub_key h2f k cols) (slot d k) = Ok (slot d' k))
    /\ (forall k, sub_key h2f k cols = [] -> dget d' k = dget d k)
    /\ (forall k, sub_key h2f k cols <> [] -> dget d' k = Some (slot d' k)).
Proof. exact fold_model. Qed.
Print Assumptions C09_fold_model.

Theorem C09_fold_list : forall t cols, is_list_ty t = true -> forall l n,
  idx_scan (length l) cols = Some n ->
  (forall i, (i < n)%nat -> exists o, fold_slot (child_ty t) (sub_idx i cols) (nth i l ONone) = Ok o) ->
  exists l',
    foldM (fa t) cols (OList l) = Ok (OList l') /\ length l' = n
    /\ (forall i, (i < n)%nat -> fold_slot (child_ty t) (sub_idx i cols) (nth i l ONone) = Ok (nth i l' ONone)).
Proof. exact fold_list. Qed.
Print Assumptions C09_fold_list.

Example C09_fold_model_nonvacuous :
  heads_ok fxy [] cols_xy
  /\ (forall k ct, field_ty fxy k = Some ct ->
                   exists o, fold_slot ct (sub_key [] k cols_xy) (slot [] k) = Ok o)
  /\ foldM (fa (TModel fxy [] [])) cols_xy (ODict []) = Ok (ODict [(S_ "y", OStr (S_ "baz")); (S_ "x", OStr (S_ "foo"))]).
Proof. exact fold_model_nonvacuous. Qed.
Print Assumptions C09_fold_model_nonvacuous.

Example C09_fold_list_nonvacuous :
  idx_scan (length (@nil out)) cols_12 = Some 2%nat
  /\ (forall i, (i < 2)%nat -> exists o, fold_slot (child_ty (TList TStr)) (sub_idx i cols_12) (nth i (@nil out) ONone) = Ok o)
  /\ foldM (fa (TList TStr)) cols_12 (OList []) = Ok (OList [OStr (S_ "c"); OStr (S_ "b")]).
Proof. exact fold_list_nonvacuous. Qed.
Print Assumptions C09_fold_list_nonvacuous.

(* column order: any rearrangement of a row that keeps, for every top-level field, the relative order
   of ITS columns (stated through the subsequences sub_key) writes the same value ... *)
Theorem C09_encodes_reorder : forall rm fields h2f f2h v cells cells' data data',
  rm_ty rm = TModel fields h2f f2h ->
  rekey (rm_ctx rm) cells = Ok data -> Enc (rm_ty rm) None v (cols_of data) ->
  rekey (rm_ctx rm) cells' = Ok data' ->
  (forall k, sub_key h2f k (cols_of data') = sub_key h2f k (cols_of data)) ->
  Encodes rm v cells'.
Proof. exact encodes_reorder. Qed.
Print Assumptions C09_encodes_reorder.

(* ... in particular swapping two neighbouring columns that belong to different fields (the
   generator of all such rearrangements), in a row without `*` columns and header context *)
Theorem C09_swap_columns : forall rm fields h2f f2h v pre a b post,
  rm_ty rm = TModel fields h2f f2h -> rm_ctx rm = None ->
  NoDup (map fst (pre ++ a :: b :: post)) -> star_free (pre ++ a :: b :: post) = true ->
  top_key h2f (fst a) <> top_key h2f (fst b) ->
  Encodes rm v (pre ++ a :: b :: post) ->
  Encodes rm v (pre ++ b :: a :: post)
  /\ parse_row rm (pre ++ b :: a :: post) = parse_row rm (pre ++ a :: b :: post).
Proof. exact swap_columns. Qed.
Print Assumptions C09_swap_columns.

Example C09_swap_columns_nonvacuous :
  let a := (S_ "l.1", S_ "1") in let b := (S_ "es.1.a", S_ "p") in
  let post := tl (tl cells_spread) in
  cells_spread = [] ++ a :: b :: post
  /\ NoDup (map fst ([] ++ a :: b :: post)) /\ star_free ([] ++ a :: b :: post) = true
  /\ top_key [] (fst a) <> top_key [] (fst b)
  /\ Encodes rmR vR ([] ++ a :: b :: post)
  /\ parse_row rmR ([] ++ b :: a :: post) = Ok vR.
Proof. exact swap_columns_nonvacuous. Qed.
Print Assumptions C09_swap_columns_nonvacuous.

(* 3. `*` columns.  The implied length of a `*` prefix is max(1, lengths of the list-valued sibling
      `*` columns) ... *)
Theorem C09_star_len_spec : forall cells p,
  star_len (star_lengths cells) p = max_from 1 (star_lens_of p cells).
Proof. exact star_len_spec. Qed.
Print Assumptions C09_star_len_spec.

(* ... in any column order *)
Theorem C09_group_len_order : forall p cs cs',
  clean p = true -> Permutation.Permutation cs cs' -> group_len p cs = group_len p cs'.
Proof. exact group_len_order. Qed.
Print Assumptions C09_group_len_order.

Example C09_group_len_order_nonvacuous :
  clean (S_ "p") = true /\ Permutation.Permutation gcells (rev gcells) /\ gcells <> rev gcells
  /\ group_len (S_ "p") gcells = 3%nat /\ group_len (S_ "p") (rev gcells) = 3%nat.
Proof. exact group_len_order_nonvacuous. Qed.
Print Assumptions C09_group_len_order_nonvacuous.

(* the columns a group of `p.*.g` cells expands to are a way of writing (Enc) the list of records
   whose element i takes from every column its i-th value if it has one, the field default otherwise *)
Theorem C09_star_columns_enc : forall sfields sh2f sf2h d scs vs,
  NoDup (map f_name sfields) ->
  NoDup (map (star_key sh2f) scs) ->
  (forall sc, In sc scs -> field_ty sfields (star_key sh2f sc) <> None) ->
  length vs = star_n scs -> (0 < star_n scs)%nat ->
  (forall i, (i < star_n scs)%nat ->
             exists fs, nth i vs (VStr []) = VModel fs /\ star_elem_spec sfields sh2f scs i fs) ->
  Enc (TList (TModel sfields sh2f sf2h)) d (VList vs) (star_cols scs).
Proof. exact star_columns_enc. Qed.
Print Assumptions C09_star_columns_enc.

Example C09_star_columns_enc_nonvacuous :
  let scs := star_scs 3 gcells in
  NoDup (map f_name gfields) /\ NoDup (map (star_key []) scs)
  /\ (forall sc, In sc scs -> field_ty gfields (star_key [] sc) <> None)
  /\ length gvs = star_n scs /\ (0 < star_n scs)%nat
  /\ (forall i, (i < star_n scs)%nat -> exists fs, nth i gvs (VStr []) = VModel fs /\ star_elem_spec gfields [] scs i fs)
  /\ Enc (TList (TModel gfields [] [])) None (VList gvs) (star_cols scs).
Proof. exact star_columns_enc_nonvacuous. Qed.
Print Assumptions C09_star_columns_enc_nonvacuous.

(* a row of `p.*.g` cells parses to the row whose list field has group_len elements (max over the
   sibling list-valued cells, at least 1), and a cell holding ONE value s gives EVERY element the
   value s denotes *)
Theorem C09_asterisk_broadcast : forall fields h2f f2h p cs sfields sh2f sf2h vs fs c s,
  let scs := star_scs (group_len p cs) cs in
  clean p = true -> Forall (fun c => clean (st_g c) = true) cs -> NoDup (map st_g cs) ->
  NoDup (map f_name fields) ->
  field_ty fields (remap_get h2f p) = Some (TList (TModel sfields sh2f sf2h)) ->
  NoDup (map f_name sfields) -> NoDup (map (star_key sh2f) scs) ->
  (forall sc, In sc scs -> field_ty sfields (star_key sh2f sc) <> None) ->
  length vs = group_len p cs ->
  (forall i, (i < group_len p cs)%nat ->
             exists efs, nth i vs (VStr []) = VModel efs /\ star_elem_spec sfields sh2f scs i efs) ->
  group_row_spec fields (remap_get h2f p) vs fs ->
  In c cs -> cell_parse (st_txt c) = Str s ->
  parse_row {| rm_ty := TModel fields h2f f2h; rm_ctx := None |} (star_data p cs) = Ok (VModel fs)
  /\ group_len p cs = max_from 1 (list_lens cs)
  /\ forall i f, (i < group_len p cs)%nat -> In f sfields -> f_name f = remap_get sh2f (st_g c) ->
                 exists efs v, nth i vs (VStr []) = VModel efs /\ In (f_name f, v) efs /\ EncNv (f_ty f) v (Str s).
Proof. exact asterisk_broadcast_row. Qed.
Print Assumptions C09_asterisk_broadcast.

(* longest list first, a shorter list later, then a single non-default value: three elements, all with t = k *)
Example C09_asterisk_broadcast_nonvacuous :
  star_data (S_ "p") gcells = [(S_ "p.*.a", S_ "x|y|z"); (S_ "p.*.b", S_ "u|v"); (S_ "p.*.t", S_ "k")]
  /\ group_len (S_ "p") gcells = 3%nat
  /\ parse_row {| rm_ty := TModel rgfields [] []; rm_ctx := None |} (star_data (S_ "p") gcells) = Ok (VModel gfs)
  /\ forall i f, (i < group_len (S_ "p") gcells)%nat -> In f gfields -> f_name f = S_ "t" ->
                 exists efs v, nth i gvs (VStr []) = VModel efs /\ In (f_name f, v) efs /\ EncNv (f_ty f) v (Str (S_ "k")).
Proof. exact asterisk_broadcast_nonvacuous. Qed.
Print Assumptions C09_asterisk_broadcast_nonvacuous.

(* header syntax used above: list indices are decimal numerals; re-keying without context is the
   identity on rows without duplicate headers *)
Theorem C09_head_idx_print : forall i, head_idx (print_nat (S i)) = Some i.
Proof. exact head_idx_print. Qed.
Print Assumptions C09_head_idx_print.

Theorem C09_rekey_none : forall cells, NoDup (map fst cells) -> rekey None cells = Ok cells.
Proof. exact rekey_none. Qed.
Print Assumptions C09_rekey_none.

(* 4. short and long flow headers.  Domain of the finite proof: every entry of the regenerated
      tables cx_basic (short -> long) and cx_sw_table (row type -> main argument field). *)
Theorem C09_short_long_tables_ok : short_long_ok = true.
Proof. exact short_long_ok_true. Qed.
Print Assumptions C09_short_long_tables_ok.

Theorem C09_short_long_headers : forall cells short long,
  oget str_eqb (cx_basic flow_cx) short = Some long ->
  ctx_h2f flow_ctx cells short = Ok long /\ ctx_h2f flow_ctx cells long = Ok long.
Proof. exact short_long_headers. Qed.
Print Assumptions C09_short_long_headers.

(* [sw_key flow_cx rt]: the text the row-type cell rt is looked up under — rt itself on a tree that reads
   the raw cell, [strip rt] on a tree that reads it as the row parser does (probed: cx_sw_strip) *)
Theorem C09_message_text_header : forall cells rt f,
  oget str_eqb cells (cx_sw_column flow_cx) = Some rt ->
  oget str_eqb (cx_sw_table flow_cx) (sw_key flow_cx rt) = Some f ->
  ctx_h2f flow_ctx cells (cx_sw_header flow_cx) = Ok f /\ ctx_h2f flow_ctx cells f = Ok f.
Proof. exact message_text_header. Qed.
Print Assumptions C09_message_text_header.

(* the short headers the property names re-key like the long forms their names say *)
Theorem C09_named_short_headers : forall short long, In (short, long) named_short_headers ->
  forall cells, ctx_h2f flow_ctx cells short = Ok long /\ ctx_h2f flow_ctx cells long = Ok long.
Proof. exact named_short_headers_ok. Qed.
Print Assumptions C09_named_short_headers.

(* rows that differ only in the short/long spelling of their headers parse identically —
   for every row, well-formed or not *)
Theorem C09_short_long_layouts : forall cells cells',
  same_row (option_map (sw_key flow_cx) (oget str_eqb cells (cx_sw_column flow_cx))) cells cells' ->
  flow_parse cells = flow_parse cells'.
Proof. exact short_long_layouts. Qed.
Print Assumptions C09_short_long_layouts.

Example C09_short_long_nonvacuous :
  same_row (oget str_eqb flow_short (cx_sw_column flow_cx)) flow_short flow_long
  /\ same_row (oget str_eqb flow_short (cx_sw_column flow_cx)) flow_short flow_mixed
  /\ flow_short <> flow_long
  /\ is_ok (flow_parse flow_short) = true
  /\ flow_parse flow_short = flow_parse flow_long.
Proof. exact short_long_nonvacuous. Qed.
Print Assumptions C09_short_long_nonvacuous.

Example C09_short_long_headers_nonvacuous :
  oget str_eqb (cx_basic flow_cx) (S_ "condition_var") = Some (S_ "edges.*.condition.variable")
  /\ oget str_eqb (cx_basic flow_cx) (S_ "from") = Some (S_ "edges.*.from_")
  /\ oget str_eqb (cx_sw_table flow_cx) (S_ "send_message") = Some (S_ "mainarg_message_text")
  /\ cx_sw_header flow_cx = S_ "message_text" /\ cx_sw_column flow_cx = S_ "type".
Proof. exact short_long_headers_nonvacuous. Qed.
Print Assumptions C09_short_long_headers_nonvacuous.

(* 5. where layout DOES matter in the faithful model.
   (a) a positional record of two entries whose first value is a field name is read as ONE
       key;value pair: the unrestricted claim is refuted, the restricted one holds for all texts *)
Theorem C09_positional_is_spread_refuted : ~ positional_is_spread_full.
Proof. exact positional_is_spread_refuted. Qed.
Print Assumptions C09_positional_is_spread_refuted.

Theorem C09_positional_is_spread_partial : forall a b,
  plain a = true -> plain b = true -> has_field fieldsAB a = false ->
  parse_row rmAB (ab_positional a b) = parse_row rmAB (ab_spread a b).
Proof. exact positional_is_spread_partial. Qed.
Print Assumptions C09_positional_is_spread_partial.

Example C09_positional_is_spread_nonvacuous :
  plain (S_ "c") = true /\ plain (S_ "x") = true /\ has_field fieldsAB (S_ "c") = false
  /\ parse_row rmAB (ab_positional (S_ "c") (S_ "x")) = Ok (rowAB (S_ "c") (S_ "x")).
Proof. exact positional_is_spread_nonvacuous. Qed.
Print Assumptions C09_positional_is_spread_nonvacuous.

Example C09_positional_flip_witness :
  parse_row rmAB (ab_spread (S_ "b") (S_ "x")) = Ok (rowAB (S_ "b") (S_ "x"))
  /\ parse_row rmAB (ab_positional (S_ "b") (S_ "x")) = Ok (rowAB [] (S_ "x")).
Proof. exact positional_flip_witness. Qed.
Print Assumptions C09_positional_flip_witness.

(* (b) the same flip for one entry of a longer positional record *)
Example C09_positional_entry_flip_witness :
  parse_row rmTN [(S_ "m.tags.1", S_ "n"); (S_ "m.tags.2", S_ "x"); (S_ "m.n", S_ "foo")] = Ok (rowTN [S_ "n"; S_ "x"] (S_ "foo"))
  /\ parse_row rmTN [(S_ "m", S_ "n;x|foo")] = Ok (rowTN [] (S_ "foo"))
  /\ parse_row rmTN [(S_ "m", S_ "q;x|foo")] = Ok (rowTN [S_ "q"; S_ "x"] (S_ "foo")).
Proof. exact positional_entry_flip_witness. Qed.
Print Assumptions C09_positional_entry_flip_witness.

(* (b') and for the mixed layout: one positional entry + one key;value pair *)
Example C09_positional_mixed_flip_witness :
  parse_row rmAN [(S_ "m.a", S_ "n"); (S_ "m.n", S_ "5")] = Ok (VModel [(S_ "m", VModel [(S_ "a", VStr (S_ "n")); (S_ "n", VInt 5)])])
  /\ parse_row rmAN [(S_ "m", S_ "n|n;5")] = Err EValue
  /\ parse_row rmAN [(S_ "m", S_ "q|n;5")] = Ok (VModel [(S_ "m", VModel [(S_ "a", VStr (S_ "q")); (S_ "n", VInt 5)])]).
Proof. exact positional_mixed_flip_witness. Qed.
Print Assumptions C09_positional_mixed_flip_witness.

(* (c) the short header `message_text` and a `type` cell with surrounding whitespace.  The row parser strips
       the `type` cell; whether the lookup behind `message_text` does too is the PROBED constant cx_sw_strip
       of the regenerated flow row model.  On a tree that strips (the repaired tree) short = long holds with
       the row type taken UP TO str.strip(), for every row; on a tree that reads the raw cell the same
       statement is refuted (finding short-header-with-padded-type-cell). *)
Theorem C09_short_header_any_padding_decided :
  if cx_sw_strip flow_cx then short_header_any_padding_full else ~ short_header_any_padding_full.
Proof. exact short_header_any_padding_decided. Qed.
Print Assumptions C09_short_header_any_padding_decided.

(* in words: ANY whitespace before and after ANY row type of the table, any other cells *)
Theorem C09_padded_type_any_whitespace : forall w1 w2 rt f v pre post,
  cx_sw_strip flow_cx = true ->
  all_ws w1 = true -> all_ws w2 = true ->
  oget str_eqb (cx_sw_table flow_cx) rt = Some f ->
  oget str_eqb pre (cx_sw_column flow_cx) = None ->
  let ty_cell := (cx_sw_column flow_cx, w1 ++ rt ++ w2) in
  flow_parse (pre ++ ty_cell :: (cx_sw_header flow_cx, v) :: post) = flow_parse (pre ++ ty_cell :: (f, v) :: post).
Proof. exact padded_type_any_whitespace. Qed.
Print Assumptions C09_padded_type_any_whitespace.

Example C09_padded_type_any_whitespace_nonvacuous :
  all_ws (S_ "  ") = true /\ all_ws [9; 160; 12288]%N = true
  /\ oget str_eqb (cx_sw_table flow_cx) (S_ "go_to") = Some (S_ "mainarg_destination_row_ids")
  /\ is_ok (flow_parse ([(S_ "row_id", S_ "7")] ++ (S_ "type", S_ "  " ++ S_ "go_to" ++ [9; 160; 12288]%N)
                         :: (S_ "mainarg_destination_row_ids", S_ "3") :: [(S_ "from", S_ "start")])) = true.
Proof. exact padded_type_any_whitespace_nonvacuous. Qed.
Print Assumptions C09_padded_type_any_whitespace_nonvacuous.

Example C09_padded_type_witness :
  is_ok (flow_parse flow_padded_long) = true
  /\ flow_parse flow_padded_long = flow_parse flow_unpadded_short
  /\ flow_parse flow_padded_short = if cx_sw_strip flow_cx then flow_parse flow_padded_long else Err EKey.
Proof. exact padded_type_witness. Qed.
Print Assumptions C09_padded_type_witness.

(* ---- the rows of a sheet on ONE RowParser object (Row/RowSession.v: rp_state = self.model, self.cell_parser and
   self.output — the one attribute parse_row assigns, reinitialised by every call; rp_run = the rows in order).
   Every row parses to what the same row parses to on a new RowParser, whatever rows came before ... *)
Theorem C09_sheet_run_is_map : forall st rows, snd (rp_run st rows) = map (parse_row (rp_rm st)) rows.
Proof. exact rp_run_results. Qed.
Print Assumptions C09_sheet_run_is_map.

Theorem C09_row_history_independent : forall st pre cells post,
  nth_error (snd (rp_run st (pre ++ cells :: post))) (length pre) = Some (parse_row (rp_rm st) cells).
Proof. exact rp_history_independent. Qed.
Print Assumptions C09_row_history_independent.

(* ... what the object holds after a sheet depends on its last row only ... *)
Theorem C09_sheet_state_after : forall st rows cells,
  fst (rp_run st (rows ++ [cells])) = mk_rp (rp_rm st) (rp_cell st) (row_output (rp_rm st) cells).
Proof. exact rp_state_after. Qed.
Print Assumptions C09_sheet_state_after.

(* ... hence the property at any point of any sheet: a row that encodes v parses to v, and two layouts of one value,
   in two different sheets at any positions, give equal row models *)
Theorem C09_encodes_parse_in_history : forall rm pre post v cells,
  Encodes rm v cells ->
  nth_error (snd (rp_run (rp_init rm) (pre ++ cells :: post))) (length pre) = Some (Ok v).
Proof. exact encodes_parse_in_history. Qed.
Print Assumptions C09_encodes_parse_in_history.

Theorem C09_layout_independent_in_history : forall rm pre1 post1 pre2 post2 v c1 c2,
  Encodes rm v c1 -> Encodes rm v c2 ->
  nth_error (snd (rp_run (rp_init rm) (pre1 ++ c1 :: post1))) (length pre1)
  = nth_error (snd (rp_run (rp_init rm) (pre2 ++ c2 :: post2))) (length pre2).
Proof. exact layout_independent_in_history. Qed.
Print Assumptions C09_layout_independent_in_history.

Example C09_sheet_nonvacuous :
  snd (rp_run (rp_init rmR) [cells_packed; cells_spread; cells_star]) = [Ok vR; Ok vR; Ok vR].
Proof. exact sheet_nonvacuous. Qed.
Print Assumptions C09_sheet_nonvacuous.

(* ---- texts with backslashes that are NOT escape sequences (^\d+$, C:\temp): a cell that the parser SPLITS (packed list /
   record cell, `*` column — hence the short flow headers from / condition / condition_var …) reads them exactly as a cell
   that it does not split (f.1, m.a, edges.1.condition.value).
   Len s e: e is a writing of s inside a split cell — separators and backslashes of s escaped, EXCEPT that a backslash
   before an ordinary character may stand as it is; LenEnd: the same when nothing follows in the cell (a final backslash
   may stand as it is too).  trimmed: no outer whitespace; str_ok: free of cleanse's temporary character, on a tree that
   has one.  The escaped writing [escape s] is one of them (C09_escape_is_a_writing); a text without separator whose
   backslashes all stand before ordinary characters is its own writing (C09_raw_text_is_its_own_writing). *)
Theorem C09_escape_is_a_writing : forall s, Len s (escape s).
Proof. exact len_escape. Qed.
Print Assumptions C09_escape_is_a_writing.

Theorem C09_raw_text_is_its_own_writing : forall s, raw_ok s = true -> Len s s.
Proof. exact len_self. Qed.
Print Assumptions C09_raw_text_is_its_own_writing.

(* ONE text in a split cell (a one-element list, a record's first field, the single value of a `*` cell — the premise
   [cell_parse (st_txt c) = Str s] of C09_asterisk_broadcast): read as the text *)
Theorem C09_raw_cell_scalar : forall s e,
  LenEnd s e -> str_ok e = true -> trimmed e = true -> cell_parse e = Str s.
Proof. exact cell_parse_raw_scalar. Qed.
Print Assumptions C09_raw_cell_scalar.

(* the same cell text, split or not: ^\d+$ under `condition` (split) and under `edges.1.condition.value` (stripped only) *)
Theorem C09_raw_cell_split_or_not : forall s,
  raw_ok s = true -> str_ok s = true -> trimmed s = true -> cell_parse s = Str (strip s).
Proof. exact cell_parse_raw_self. Qed.
Print Assumptions C09_raw_cell_split_or_not.

(* TWO texts joined by either separator *)
Theorem C09_raw_cell_pair : forall sep a b ea eb,
  sep = sep0 \/ sep = sep1 -> Len a ea -> LenEnd b eb -> eb <> [] ->
  str_ok ea = true -> str_ok eb = true -> trimmed ea = true -> trimmed eb = true ->
  cell_parse (ea ++ [sep] ++ eb) = Lst [Str a; Str b].
Proof. exact cell_parse_raw_pair. Qed.
Print Assumptions C09_raw_cell_pair.

(* rows.  "a list given as f.1, f.2 or as one f cell with ;" (class RF: f: List[str] = []), for ALL texts a, b and all
   their writings ea, eb *)
Theorem C09_raw_list_packed_is_spread : forall sep a b ea eb,
  sep = sep0 \/ sep = sep1 -> Len a ea -> LenEnd b eb -> eb <> [] ->
  str_ok ea = true -> str_ok eb = true -> trimmed ea = true -> trimmed eb = true -> trimmed a = true -> trimmed b = true ->
  parse_row rmF [(S_ "f", ea ++ [sep] ++ eb)] = Ok (rowF [a; b]) /\
  parse_row rmF [(S_ "f.1", a); (S_ "f.2", b)] = Ok (rowF [a; b]).
Proof. exact raw_list_packed_is_spread. Qed.
Print Assumptions C09_raw_list_packed_is_spread.

(* the SAME two cell texts under `f.1`, `f.2` and joined in one `f` cell *)
Theorem C09_raw_list_same_texts : forall sep a b,
  sep = sep0 \/ sep = sep1 -> raw_ok a = true -> raw_ok b = true -> b <> [] ->
  str_ok a = true -> str_ok b = true -> trimmed a = true -> trimmed b = true ->
  parse_row rmF [(S_ "f", a ++ [sep] ++ b)] = parse_row rmF [(S_ "f.1", a); (S_ "f.2", b)].
Proof. exact raw_list_same_texts. Qed.
Print Assumptions C09_raw_list_same_texts.

Theorem C09_raw_list_scalar_is_spread : forall a ea,
  LenEnd a ea -> a <> [] -> str_ok ea = true -> trimmed ea = true -> trimmed a = true ->
  parse_row rmF [(S_ "f", ea)] = Ok (rowF [a]) /\ parse_row rmF [(S_ "f.1", a)] = Ok (rowF [a]).
Proof. exact raw_list_scalar_is_spread. Qed.
Print Assumptions C09_raw_list_scalar_is_spread.

(* "a sub-record given as f.a, f.b or as one cell of positional entries" (class AB of C09_positional_is_spread_partial,
   whose side condition on field names stays) *)
Theorem C09_raw_record_positional_is_spread : forall a b ea eb,
  Len a ea -> LenEnd b eb -> eb <> [] ->
  str_ok ea = true -> str_ok eb = true -> trimmed ea = true -> trimmed eb = true -> trimmed a = true -> trimmed b = true ->
  has_field fieldsAB a = false ->
  parse_row rmAB [(S_ "m", ea ++ [sep0] ++ eb)] = Ok (rowAB a b) /\ parse_row rmAB (ab_spread a b) = Ok (rowAB a b).
Proof. exact raw_record_positional_is_spread. Qed.
Print Assumptions C09_raw_record_positional_is_spread.

(* ^\d+$ and \w+ \w+ in one cell and in two; C:\temp\ written C:\temp\\ before the separator and C:\temp\ at the end *)
Example C09_raw_texts_nonvacuous :
  raw_ok t_digits = true /\ raw_ok t_words = true /\ trimmed t_digits = true /\ trimmed t_words = true /\
  str_ok t_digits = true /\ str_ok t_words = true /\
  parse_row rmF (f_packed sep1 t_digits t_words) = Ok (rowF [t_digits; t_words]) /\
  parse_row rmF (f_spread t_digits t_words) = Ok (rowF [t_digits; t_words]) /\
  Len t_path (S_ "C:\temp\\") /\ LenEnd t_path t_path /\ raw_ok t_path = false /\
  parse_row rmF (f_packed sep0 (S_ "C:\temp\\") t_path) = Ok (rowF [t_path; t_path]) /\
  cell_parse t_digits = Str t_digits /\
  parse_row rmAB [(S_ "m", t_digits ++ [sep0] ++ t_path)] = Ok (rowAB t_digits t_path).
Proof. exact raw_texts_nonvacuous. Qed.
Print Assumptions C09_raw_texts_nonvacuous.
