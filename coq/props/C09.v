(* C09 — the same data in different column layouts parses to the same row.
   Only property theorems here, each closed by [exact] and followed by Print Assumptions. *)
From Coq Require Import List NArith Bool.
From RPFT Require Import Base.Sexp Base.PyStr Gen.Tables Cell.Cell Row.Ty Row.Layout Row.RowParse Row.RowUnparse Row.FlowRow Row.RowFacts.
Import ListNotations.

Theorem C09_tables_ok : row_tables_ok = true.
Proof. exact row_tables_ok_true. Qed.
Print Assumptions C09_tables_ok.
