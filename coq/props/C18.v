(* C18 — a model inferred from headers is the explicit model the headers denote.
   Only property theorems here, each closed by [exact] and followed by Print Assumptions.

   Vocabulary (coq/theories/Row/InferTy.v, Row/Infer.v):
   [schema]/[sty]   the family: plain columns f | f:T | f=v | f:T=v (T in str int float bool list
                    List List[..], whitespace padding around the separators), index-spread lists
                    f.1 f.2 .., sub-records f.a f.b .., nested to ANY depth and of any size;
   [headers_of]     the annotated header row a schema is written as;
   [denote]         the explicit model (types, field order, defaults) the schema denotes;
   [infer]          the Gallina mirror of model_inference.model_from_headers_rec for the tree of this
                    run (tied to the code by differential execution in harness/c18.py);
                    [infer = infer_at inf_nested_by_field_name], see 6;
   [wf_schema]      names are non-empty-of-separators, stripped, not integer-like and distinct per
                    level; a list is spread over leaves only or over nested entries only; every
                    spread / sub-record has an entry; a written default is a literal of its type,
                    stripped, and contains no header separator (nor ':' in an untyped column). *)
From Coq Require Import List NArith ZArith Bool.
From RPFT Require Import Base.Sexp Base.PyStr Base.Result Gen.Tables Row.InferTy Row.Infer
  Row.InferFacts Row.InferMainFacts Row.InferOrderFacts Row.InferCorollaries
  Base.ODict Row.InferCip Row.InferCipFacts.
Import ListNotations.

(* the regenerated separators and type-name tables satisfy what the proofs need *)
Theorem C18_tables_ok : infer_tables_ok = true.
Proof. exact infer_tables_ok_true. Qed.
Print Assumptions C18_tables_ok.

(* 1. the headline: for EVERY well-formed schema, of any nesting depth and size, the model
      inferred from the rendered headers is exactly the denoted model (types, field order,
      defaults; equality of [model]s, no normalisation) *)
Theorem C18_infer_headers_of : forall sc,
  wf_schema sc = true -> infer (headers_of sc) = Ok (denote sc).
Proof. exact infer_headers_of. Qed.
Print Assumptions C18_infer_headers_of.

Example C18_infer_headers_of_nonvacuous : wf_schema ex_deep = true.
Proof. exact ex_deep_wf. Qed.
Print Assumptions C18_infer_headers_of_nonvacuous.

Example C18_infer_headers_of_nonvacuous_headers :
  length (headers_of ex_deep) = 14%nat
  /\ In [32; 101; 32; 9; 61; 32; 120; 61; 49; 32; 32]%N (headers_of ex_deep).   (* " e \t= x=1  " *)
Proof. exact ex_deep_headers. Qed.
Print Assumptions C18_infer_headers_of_nonvacuous_headers.

Example C18_infer_headers_of_nonvacuous_depth9 : wf_schema [(nm 97, ex_chain 4)] = true.
Proof. exact ex_chain_wf. Qed.
Print Assumptions C18_infer_headers_of_nonvacuous_depth9.

(* 2. the fuel of the mirror suffices on ANY header list (rendered or not): the distinct
      out-of-fuel result is unreachable, so [infer] is the recursion of the code *)
Theorem C18_infer_never_out_of_fuel : forall hs, infer hs <> Err EOutOfFuel.
Proof. exact infer_never_out_of_fuel. Qed.
Print Assumptions C18_infer_never_out_of_fuel.

(* and any larger fuel gives the same answer *)
Theorem C18_infer_any_fuel : forall hs fuel, (max_len hs < fuel)%nat -> infer hs = infer_rec fuel hs.
Proof. exact (infer_any_fuel inf_nested_by_field_name). Qed.
Print Assumptions C18_infer_any_fuel.

(* 3. order of the columns, for ANY header list.  A column is "nested" when the code finds the
      header separator in it ([is_nested inf_nested_by_field_name]: in the whole header on the tree
      with the defect, in the field name on the repaired tree).  The inferred model (or error) is a
      function of (a) the plain columns in order, (b) the prefixes of the nested columns in order of
      first appearance and (c) the sub-headers of each prefix in order: any rearrangement of the
      header row that keeps these three gives the SAME model. *)
Theorem C18_infer_partition_invariant : forall hs1 hs2,
  plain_of inf_nested_by_field_name hs1 = plain_of inf_nested_by_field_name hs2 ->
  prefixes inf_nested_by_field_name hs1 = prefixes inf_nested_by_field_name hs2 ->
  (forall k, subs_of inf_nested_by_field_name k hs1 = subs_of inf_nested_by_field_name k hs2) ->
  infer hs1 = infer hs2.
Proof. exact (infer_partition_invariant inf_nested_by_field_name). Qed.
Print Assumptions C18_infer_partition_invariant.

(* in particular moving the plain columns to the front (both groups in their order) *)
Theorem C18_infer_partition : forall hs, infer (stable_partition inf_nested_by_field_name hs) = infer hs.
Proof. exact (infer_partition inf_nested_by_field_name). Qed.
Print Assumptions C18_infer_partition.

(* what is NOT invariant is the order of the fields: an inferred class lists the names of the
   plain columns in order of first occurrence, then the prefixes of the nested columns in order of
   first occurrence (a prefix that is also a plain name keeps the plain column's position) *)
Theorem C18_infer_field_order : forall hs fields d,
  infer hs = Ok (TRec fields, d) ->
  map fst fields = first_occ (map get_field_name (plain_of inf_nested_by_field_name hs)
                              ++ map fst (pairs_of inf_nested_by_field_name hs)).
Proof. exact (infer_field_order inf_nested_by_field_name). Qed.
Print Assumptions C18_infer_field_order.

Example C18_infer_order_nonvacuous : forall bn,
  stable_partition bn ex_mixed <> ex_mixed /\ prefixes bn ex_mixed = [[98]; [99]]%N
  /\ subs_of bn [98]%N ex_mixed = [[120]; [121]]%N /\ exists m, infer_at bn ex_mixed = Ok m.
Proof. exact ex_mixed_moves. Qed.
Print Assumptions C18_infer_order_nonvacuous.

Example C18_infer_field_order_nonvacuous : forall bn, exists fields d, infer_at bn ex_mixed = Ok (TRec fields, d).
Proof. exact ex_mixed_class. Qed.
Print Assumptions C18_infer_field_order_nonvacuous.

(* hypothesis (b) cannot be dropped, not even "up to the order of the fields": 1.a 2.b:int and
   2.b:int 1.a have the same plain columns and the same sub-headers under every prefix, but an
   inferred list takes the type of its LAST integer-keyed entry *)
Example C18_prefix_order_matters : forall bn,
  plain_of bn ex_swap1 = plain_of bn ex_swap2
  /\ (forall k, subs_of bn k ex_swap1 = subs_of bn k ex_swap2)
  /\ infer_at bn ex_swap1 = Ok (TList (TRec [([98]%N, (TInt, VInt 0))]), VList [VRec [([97]%N, VStr [])]; VRec [([98]%N, VInt 0)]])
  /\ infer_at bn ex_swap2 = Ok (TList (TRec [([97]%N, (TStr, VStr []))]), VList [VRec [([97]%N, VStr [])]; VRec [([98]%N, VInt 0)]]).
Proof. exact prefix_order_matters. Qed.
Print Assumptions C18_prefix_order_matters.

(* 4. "every row then parses to the same nested data that the hand-written model would give":
      (1) is an equality of models, so this holds for ANY row parser whatsoever (any function of
      the model and the row).  The Gallina RowParser of Row/RowParse.v works over the universe of
      Row/Ty.v (no bare typing.List, float defaults as repr text), not over [model]; no embedding
      of the universes is claimed here — this clause is additionally decided on the
      implementation by harness/c18.py (row.dict() under the inferred vs a hand-built model). *)
Theorem C18_inferred_parses_same :
  forall (R Row : Type) (parse_row : model -> Row -> R) sc row,
  wf_schema sc = true ->
  rmap (fun m => parse_row m row) (infer (headers_of sc)) = Ok (parse_row (denote sc) row).
Proof. exact inferred_parses_same. Qed.
Print Assumptions C18_inferred_parses_same.

(* 5. "the inferred structure does not depend on cell contents": the model of a data sheet
      without a data_model is computed from the header row alone.  This is true BY TYPE of the
      mirror ([sheet_model t] = model_from_headers (dt_headers t), as in
      contentindexparser._get_new_data_sheet); that the code has no other input (no hidden state,
      no look at the rows) is what the harness checks through ContentIndexParser. *)
Theorem C18_content_independent : forall t1 t2,
  dt_headers t1 = dt_headers t2 -> sheet_model t1 = sheet_model t2.
Proof. exact content_independent. Qed.
Print Assumptions C18_content_independent.

Theorem C18_sheet_model_of_schema : forall sc rows,
  wf_schema sc = true -> sheet_model (mk_table (headers_of sc) rows) = Ok (fst (denote sc)).
Proof. exact sheet_model_of_schema. Qed.
Print Assumptions C18_sheet_model_of_schema.

(* 6. the default clause at FULL strength: [wf_schema_full] drops the restriction that a written
      default has no header separator (x:float=1.5, site=www.example.org).  Decided for the code
      of this run through the regenerated constant [inf_nested_by_field_name] (probed by the
      translator): the headline HOLDS over the full family when the code looks for the header
      separator in the field name only (the repaired tree), and is REFUTED by x:float=1.5 when it
      looks in the whole header (finding default-contains-dot). *)
Theorem C18_dot_default_decided :
  if inf_nested_by_field_name
  then forall sc, wf_schema_full sc = true -> infer (headers_of sc) = Ok (denote sc)
  else ~ (forall sc, wf_schema_full sc = true -> infer (headers_of sc) = Ok (denote sc)).
Proof. exact dot_default_decided. Qed.
Print Assumptions C18_dot_default_decided.

(* both behaviours are mirrored ([infer = infer_at inf_nested_by_field_name]) and both facts are
   proved on every run, whatever the tree: the candidate repair is correct over the full family, *)
Theorem C18_by_field_name_headline_full : forall sc,
  wf_schema_full sc = true -> infer_at true (headers_of sc) = Ok (denote sc).
Proof. exact headline_full_by_name. Qed.
Print Assumptions C18_by_field_name_headline_full.

(* the whole-header test is not, *)
Theorem C18_whole_header_headline_full_refuted :
  ~ (forall sc, wf_schema_full sc = true -> infer_at false (headers_of sc) = Ok (denote sc)).
Proof. exact headline_full_whole_header_refuted. Qed.
Print Assumptions C18_whole_header_headline_full_refuted.

(* and on the family of (1) the two behaviours agree with the denoted model *)
Theorem C18_infer_at_headers_of : forall bn sc,
  wf_schema sc = true -> infer_at bn (headers_of sc) = Ok (denote sc).
Proof. exact infer_at_headers_of. Qed.
Print Assumptions C18_infer_at_headers_of.

Example C18_dot_default_witness : wf_schema_full ex_dot = true /\ wf_schema ex_dot = false.
Proof. exact ex_dot_full. Qed.
Print Assumptions C18_dot_default_witness.

Example C18_dot_default_witness_by_field_name :
  infer_at true (headers_of ex_dot)
  = Ok (TRec [(nm 120, (TFloat, VFloat [49; 46; 53]%N))], VRec [(nm 120, VFloat [49; 46; 53]%N)]).
Proof. exact ex_dot_by_name. Qed.
Print Assumptions C18_dot_default_witness_by_field_name.

Example C18_dot_default_witness_whole_header :
  exists t d, infer_at false (headers_of ex_dot)
              = Ok (TRec [([120; 58; 102; 108; 111; 97; 116; 61; 49]%N, (TList t, d))],
                    VRec [([120; 58; 102; 108; 111; 97; 116; 61; 49]%N, d)]).     (* a field "x:float=1" *)
Proof. exact ex_dot_whole_header. Qed.
Print Assumptions C18_dot_default_witness_whole_header.

(* 7. HISTORIES.  model_inference.py is pure, but the object that calls it lives for a whole run
      and legitimately keeps state: the registry self.data_sheets (a registered name wins over the
      sheet of that name; an operation registers its result under new_name).  Row/InferCip.v mirrors
      that state machine of ONE long-lived ContentIndexParser ([step] = _process_data_sheet,
      [scan_all] = the object driven row by row, a failed row leaving it as it was; [run] = the
      constructor) together with the row model of every registered sheet: the user's class, or a
      class inferred from the header row of the sheet named as its source, with the identity
      (stamp) of the class object.  It is tied to the code by running the SAME index rows through the
      extracted [scan_all]/[run] and through one implementation object, comparing the registry
      after every row (harness/c18_hist.py).  "The headers alone determine the row structure" for a
      parser with a past: *)

(* a load of a sheet that is not registered gives the same sheet (model structure, provenance,
   sources; or the same error) in ANY two states, i.e. after any two histories *)
Theorem C18_fresh_load_history_independent : forall ev st1 st2 n1 n2 name dm,
  oget str_eqb (reg st1) name = None -> oget str_eqb (reg st2) name = None ->
  obs_load (get_sheet ev st1 n1 name dm) = obs_load (get_sheet ev st2 n2 name dm).
Proof. exact get_sheet_history_independent. Qed.
Print Assumptions C18_fresh_load_history_independent.

(* and when its header row renders a schema of the family: the denoted model, whatever the state *)
Theorem C18_fresh_load_denotes : forall ev st name sc rows,
  wf_schema sc = true ->
  oget str_eqb (reg st) name = None ->
  wb_get ev name = Some (mk_wsheet (mk_table (headers_of sc) rows) true) ->
  exists st', step ev st (load_row name) = Ok st'
    /\ oget str_eqb (reg st') name = Some (mk_dsheet (RInferred (next_stamp st) name (fst (denote sc))) [name]).
Proof. exact step_load_denotes. Qed.
Print Assumptions C18_fresh_load_denotes.

(* invariant of every state the long-lived object reaches, whatever the rows were (loads, user models,
   concat / filter / sort, re-registrations, failed rows): every registered inferred model is
   [sheet_model] of the header row of the sheet named as its source and has a stamp below the
   counter, every registered user model is defined in the module, and one class object (stamp)
   never stands for two sources or two structures *)
Theorem C18_registry_sound : forall ev rows, Forall (outcome_sound ev) (scan_all ev rows init_state).
Proof. exact scan_all_sound. Qed.
Print Assumptions C18_registry_sound.

Theorem C18_registry_sound_constructor : forall ev rows st, run ev rows init_state = Ok st -> reg_sound ev st.
Proof. exact run_sound. Qed.
Print Assumptions C18_registry_sound_constructor.

Theorem C18_registered_inferred_model : forall ev st name d k src t,
  reg_sound ev st -> oget str_eqb (reg st) name = Some d -> ds_model d = RInferred k src t ->
  exists ws, wb_get ev src = Some ws /\ sheet_model (ws_table ws) = Ok t.
Proof. exact sound_registered_inferred. Qed.
Print Assumptions C18_registered_inferred_model.

(* plain loads of pairwise distinct sheets through one object: the sequence of results is the map
   of the load done by a parser without a past ("run ops = map f ops") *)
Theorem C18_loads_are_pure : forall ev names,
  NoDup names ->
  outcomes (map load_row names) (scan_all ev (map load_row names) init_state) = map (pure_load ev) names.
Proof. exact scan_loads_pure. Qed.
Print Assumptions C18_loads_are_pure.

(* the cell contents are not consulted along a history either: two workbooks with the same header
   rows (and the same readability inputs) give the same outcomes, row by row *)
Theorem C18_history_content_independent : forall ev1 ev2 rows,
  env_headers ev1 = env_headers ev2 -> forall st, scan_all ev1 rows st = scan_all ev2 rows st.
Proof. exact scan_all_content_independent. Qed.
Print Assumptions C18_history_content_independent.

(* a history that is about something: `a` (ID, n:int=3), an unreadable `c`, `b` with the same
   column names without annotations (ID, n), a filter of `a` registered as `z`, a load of `z` *)
Example C18_history_nonvacuous :
  outcomes ex_hist_rows (scan_all ex_hist_env ex_hist_rows init_state)
  = [ Ok (OInferred [97]%N ex_int3, [[97]%N]); Err CRows; Ok (OInferred [98]%N ex_str, [[98]%N]);
      Ok (OInferred [97]%N ex_int3, [[97]%N]); Ok (OInferred [97]%N ex_int3, [[97]%N]) ].
Proof. exact ex_hist_outcomes. Qed.
Print Assumptions C18_history_nonvacuous.
