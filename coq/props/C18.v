(* C18 — a model inferred from headers is the explicit model the headers denote.
   Only property theorems here, each closed by [exact] and followed by Print Assumptions. *)
From Coq Require Import List NArith ZArith Bool.
From RPFT Require Import Base.Sexp Base.PyStr Base.Result Gen.Tables Row.InferTy Row.Infer Row.InferFacts.
Import ListNotations.

(* the regenerated separators and type-name tables satisfy what the proofs need *)
Theorem C18_tables_ok : infer_tables_ok = true.
Proof. exact infer_tables_ok_true. Qed.
Print Assumptions C18_tables_ok.
