(* C11 — data-sheet concat, filter and sort do exactly that, and never touch their source.
   Only property theorems here, each closed by [exact] and followed by Print Assumptions.
   Row ids [I], rows [R] and sort keys [K] are arbitrary types; [ieqb] decides equality of
   ids, [kleb] is a total preorder on keys; the meaning of the user expression is the
   function [pred] / [key] (None = the evaluation raises).  These are premises of the
   theorems, not axioms. *)
From Coq Require Import List NArith ZArith Bool Permutation Sorted.
From RPFT Require Import Base.Sexp Base.PyStr Base.ODict Base.Result Gen.Tables Index.DataOps Index.DataOpsFacts Index.DataOpsHistFacts.
Import ListNotations.

(* 1. concat: keys = first occurrences in source order, value = last occurrence, no id twice,
      and the ids are exactly those of the sources *)
Theorem C11_concat_spec :
  forall (I R : Type) (ieqb : I -> I -> bool), (forall a b, ieqb a b = true <-> a = b) ->
  forall srcs : list (list (I * R)),
    okeys (concat_rows ieqb srcs) = dedup ieqb (map fst (List.concat srcs))
    /\ NoDup (okeys (concat_rows ieqb srcs))
    /\ (forall l1 k v l2, List.concat srcs = l1 ++ (k, v) :: l2 -> ~ In k (map fst l2) ->
          oget ieqb (concat_rows ieqb srcs) k = Some v)
    /\ (forall k, In k (okeys (concat_rows ieqb srcs)) <-> exists s, In s srcs /\ In k (okeys s)).
Proof. exact (@concat_spec). Qed.
Print Assumptions C11_concat_spec.

(* [dedup] is "first occurrences, in order": no repeats, same elements, identity on lists without repeats *)
Theorem C11_dedup_is_first_occurrences :
  forall (I : Type) (ieqb : I -> I -> bool), (forall a b, ieqb a b = true <-> a = b) ->
  forall l : list I, NoDup (dedup ieqb l) /\ (forall x, In x (dedup ieqb l) <-> In x l) /\ (NoDup l -> dedup ieqb l = l).
Proof.
  exact (fun I ieqb H l => conj (dedup_nodup ieqb H l) (conj (fun x => dedup_in ieqb H x l) (dedup_nodup_id ieqb H l))).
Qed.
Print Assumptions C11_dedup_is_first_occurrences.

(* 2. filter: exactly the rows whose expression value is the object True, in original order;
      an Ok result means no evaluation raised *)
Theorem C11_filter_spec :
  forall (I R : Type) (ieqb : I -> I -> bool), (forall a b, ieqb a b = true <-> a = b) ->
  forall (pred : R -> option bool) (d d' : list (I * R)),
    NoDup (okeys d) -> filter_rows ieqb pred d = Ok d' ->
    d' = filter (keeps pred) d /\ Forall (fun kv => pred (snd kv) <> None) d.
Proof. exact (@filter_spec). Qed.
Print Assumptions C11_filter_spec.

Theorem C11_filter_defined :
  forall (I R : Type) (ieqb : I -> I -> bool), (forall a b, ieqb a b = true <-> a = b) ->
  forall (pred : R -> option bool) (d : list (I * R)),
    NoDup (okeys d) -> Forall (fun kv => pred (snd kv) <> None) d ->
    filter_rows ieqb pred d = Ok (filter (keeps pred) d).
Proof. exact (@filter_defined). Qed.
Print Assumptions C11_filter_defined.

Theorem C11_filter_error :
  forall (I R : Type) (ieqb : I -> I -> bool) (pred : R -> option bool) (d : list (I * R)) e,
    filter_rows ieqb pred d = Err e -> e = EEval /\ Exists (fun kv => pred (snd kv) = None) d.
Proof. exact (@filter_error). Qed.
Print Assumptions C11_filter_error.

(* 3. sort: a permutation, sorted by the key in the direction of the sort, and stable: the
      rows of every key class keep their source order — for ascending and descending alike *)
Theorem C11_sort_spec :
  forall (I R K : Type) (ieqb : I -> I -> bool), (forall a b, ieqb a b = true <-> a = b) ->
  forall kleb : K -> K -> bool,
    (forall a b, kleb a b = true \/ kleb b a = true) ->
    (forall a b c, kleb a b = true -> kleb b c = true -> kleb a c = true) ->
  forall (key : R -> option K) (desc : bool) (d d' : list (I * R)),
    NoDup (okeys d) -> sort_rows ieqb kleb key desc d = Ok d' ->
    Permutation d' d
    /\ StronglySorted (item_le kleb key desc) d'
    /\ (forall k, filter (has_key kleb key k) d' = filter (has_key kleb key k) d).
Proof. exact (@sort_spec). Qed.
Print Assumptions C11_sort_spec.

Theorem C11_sort_defined :
  forall (I R K : Type) (ieqb : I -> I -> bool) (kleb : K -> K -> bool) (key : R -> option K) desc (d : list (I * R)),
    Forall (fun kv => key (snd kv) <> None) d -> exists d', sort_rows ieqb kleb key desc d = Ok d'.
Proof. exact (@sort_defined). Qed.
Print Assumptions C11_sort_defined.

Theorem C11_sort_error :
  forall (I R K : Type) (ieqb : I -> I -> bool) (kleb : K -> K -> bool) (key : R -> option K) desc (d : list (I * R)) e,
    sort_rows ieqb kleb key desc d = Err e -> e = EEval /\ Exists (fun kv => key (snd kv) = None) d.
Proof. exact (@sort_error). Qed.
Print Assumptions C11_sort_error.

(* ... and these three facts say everything: whatever list satisfies them IS the result *)
Theorem C11_sort_characterised :
  forall (I R K : Type) (ieqb : I -> I -> bool), (forall a b, ieqb a b = true <-> a = b) ->
  forall kleb : K -> K -> bool,
    (forall a b, kleb a b = true \/ kleb b a = true) ->
    (forall a b c, kleb a b = true -> kleb b c = true -> kleb a c = true) ->
  forall (key : R -> option K) (desc : bool) (d d' d'' : list (I * R)),
    NoDup (okeys d) -> sort_rows ieqb kleb key desc d = Ok d' ->
    Permutation d'' d ->
    StronglySorted (item_le kleb key desc) d'' ->
    (forall k, filter (has_key kleb key k) d'' = filter (has_key kleb key k) d) ->
    d'' = d'.
Proof. exact (@sort_characterised). Qed.
Print Assumptions C11_sort_characterised.

(* descending is the stable sort by the reversed order, NOT the reversed ascending sort *)
Theorem C11_sort_desc_is_not_reversed_sort :
  exists d : list (N * N),
    NoDup (okeys d) /\
    sort_rows N.eqb lex_leb Ex.key true d <> rmap (@rev _) (sort_rows N.eqb lex_leb Ex.key false d).
Proof. exact sort_desc_is_not_reversed_sort. Qed.
Print Assumptions C11_sort_desc_is_not_reversed_sort.

(* the order of the wire instance is a total preorder, so 3 applies to what the harness runs *)
Theorem C11_lex_order_total_preorder :
  (forall a b, lex_leb a b = true \/ lex_leb b a = true)
  /\ (forall a b c, lex_leb a b = true -> lex_leb b c = true -> lex_leb a c = true).
Proof. exact (conj lex_leb_total lex_leb_trans). Qed.
Print Assumptions C11_lex_order_total_preorder.

(* 4. the result is registered under the new name ... *)
Theorem C11_registered_under_new_name :
  forall (I R K : Type) (ieqb : I -> I -> bool) (kleb : K -> K -> bool) (rid : R -> I)
         (raw : str -> bool -> option (list R)) (model_defined : str -> bool)
         (st : @state I R) (r : @irow R K) (st' : @state I R),
    step ieqb kleb rid raw model_defined st r = Ok st' ->
    exists d, op_result ieqb kleb rid raw model_defined st r = Ok (d, next_stamp st')
              /\ oget str_eqb (reg st') (target r) = Some d.
Proof. exact (@step_registers). Qed.
Print Assumptions C11_registered_under_new_name.

(* ... and every other registered sheet — in particular a source — is exactly what it was *)
Theorem C11_sources_untouched :
  forall (I R K : Type) (ieqb : I -> I -> bool) (kleb : K -> K -> bool) (rid : R -> I)
         (raw : str -> bool -> option (list R)) (model_defined : str -> bool)
         (st : @state I R) (r : @irow R K) (st' : @state I R) (name : str),
    step ieqb kleb rid raw model_defined st r = Ok st' -> name <> target r ->
    oget str_eqb (reg st') name = oget str_eqb (reg st) name.
Proof. exact (@sources_untouched). Qed.
Print Assumptions C11_sources_untouched.

Theorem C11_untouched_over_chains :
  forall (I R K : Type) (ieqb : I -> I -> bool) (kleb : K -> K -> bool) (rid : R -> I)
         (raw : str -> bool -> option (list R)) (model_defined : str -> bool)
         (rows : list (@irow R K)) (st st' : @state I R) (name : str),
    run ieqb kleb rid raw model_defined rows st = Ok st' ->
    Forall (fun r => target r <> name) rows ->
    oget str_eqb (reg st') name = oget str_eqb (reg st) name.
Proof. exact (@run_untouched). Qed.
Print Assumptions C11_untouched_over_chains.

Theorem C11_registry_names :
  forall (I R K : Type) (ieqb : I -> I -> bool) (kleb : K -> K -> bool) (rid : R -> I)
         (raw : str -> bool -> option (list R)) (model_defined : str -> bool)
         (st : @state I R) (r : @irow R K) (st' : @state I R),
    step ieqb kleb rid raw model_defined st r = Ok st' ->
    okeys (reg st') = if ocontains str_eqb (reg st) (target r) then okeys (reg st) else okeys (reg st) ++ [target r].
Proof. exact (@step_names). Qed.
Print Assumptions C11_registry_names.

(* a registered source is used as registered (the data_model of the row is ignored) *)
Theorem C11_registered_source_wins :
  forall (I R : Type) (ieqb : I -> I -> bool) (rid : R -> I)
         (raw : str -> bool -> option (list R)) (model_defined : str -> bool)
         (st : @state I R) n name dm d,
    oget str_eqb (reg st) name = Some d -> get_sheet ieqb rid raw model_defined st n name dm = Ok (d, n).
Proof. exact (@get_sheet_registered). Qed.
Print Assumptions C11_registered_source_wins.

(* 5. chains: over ANY sequence of index rows every registered sheet has each row id once,
      keyed by the row's own ID, and sheet names are unique *)
Theorem C11_chain_invariant :
  forall (I R K : Type) (ieqb : I -> I -> bool), (forall a b, ieqb a b = true <-> a = b) ->
  forall kleb : K -> K -> bool,
    (forall a b, kleb a b = true \/ kleb b a = true) ->
    (forall a b c, kleb a b = true -> kleb b c = true -> kleb a c = true) ->
  forall (rid : R -> I) (raw : str -> bool -> option (list R)) (model_defined : str -> bool)
         (rows : list (@irow R K)) (st : @state I R),
    run ieqb kleb rid raw model_defined rows init_state = Ok st -> reg_inv rid st.
Proof. exact (@chain_invariant). Qed.
Print Assumptions C11_chain_invariant.

Theorem C11_step_preserves_invariant :
  forall (I R K : Type) (ieqb : I -> I -> bool), (forall a b, ieqb a b = true <-> a = b) ->
  forall kleb : K -> K -> bool,
    (forall a b, kleb a b = true \/ kleb b a = true) ->
    (forall a b c, kleb a b = true -> kleb b c = true -> kleb a c = true) ->
  forall (rid : R -> I) (raw : str -> bool -> option (list R)) (model_defined : str -> bool)
         (st : @state I R) (r : @irow R K) (st' : @state I R),
    reg_inv rid st -> step ieqb kleb rid raw model_defined st r = Ok st' -> reg_inv rid st'.
Proof. exact (@step_inv). Qed.
Print Assumptions C11_step_preserves_invariant.

(* 1-3 composed with registration, for one index row in any reachable state (uses the
   regenerated operation words) *)
Theorem C11_step_concat :
  forall (I R K : Type) (ieqb : I -> I -> bool) (kleb : K -> K -> bool) (rid : R -> I) (raw : str -> bool -> option (list R)) (model_defined : str -> bool)
         (st : @state I R) (r : @irow R K) (st' : @state I R),
    step ieqb kleb rid raw model_defined st r = Ok st' ->
    ir_op_type r = dop_word_concat \/ ir_op_type r = [] ->
    exists ds d, loaded ieqb rid raw model_defined st (ir_data_model r) (next_stamp st) (ir_sheet_names r) ds (next_stamp st')
      /\ oget str_eqb (reg st') (target r) = Some d
      /\ ds_rows d = concat_rows ieqb (map ds_rows ds)
      /\ Forall (fun d0 => ds_model d0 = ds_model d) ds.
Proof. exact (@step_concat). Qed.
Print Assumptions C11_step_concat.

Theorem C11_step_filter :
  forall (I R K : Type) (ieqb : I -> I -> bool), (forall a b, ieqb a b = true <-> a = b) ->
  forall (kleb : K -> K -> bool) (rid : R -> I) (raw : str -> bool -> option (list R)) (model_defined : str -> bool)
         (st : @state I R) (r : @irow R K) (st' : @state I R) src rest,
    reg_inv rid st -> step ieqb kleb rid raw model_defined st r = Ok st' ->
    ir_op_type r = dop_word_filter -> ir_sheet_names r = src :: rest ->
    exists d0 d, get_sheet ieqb rid raw model_defined st (next_stamp st) src (ir_data_model r) = Ok (d0, next_stamp st')
      /\ oget str_eqb (reg st') (ir_new_name r) = Some d
      /\ ds_rows d = filter (keeps (ir_pred r)) (ds_rows d0)
      /\ ds_model d = ds_model d0.
Proof. exact (@step_filter). Qed.
Print Assumptions C11_step_filter.

Theorem C11_step_sort :
  forall (I R K : Type) (ieqb : I -> I -> bool), (forall a b, ieqb a b = true <-> a = b) ->
  forall kleb : K -> K -> bool,
    (forall a b, kleb a b = true \/ kleb b a = true) ->
    (forall a b c, kleb a b = true -> kleb b c = true -> kleb a c = true) ->
  forall (rid : R -> I) (raw : str -> bool -> option (list R)) (model_defined : str -> bool)
         (st : @state I R) (r : @irow R K) (st' : @state I R) src rest,
    reg_inv rid st -> step ieqb kleb rid raw model_defined st r = Ok st' ->
    ir_op_type r = dop_word_sort -> ir_sheet_names r = src :: rest ->
    exists d0 d, get_sheet ieqb rid raw model_defined st (next_stamp st) src (ir_data_model r) = Ok (d0, next_stamp st')
      /\ oget str_eqb (reg st') (ir_new_name r) = Some d
      /\ Permutation (ds_rows d) (ds_rows d0)
      /\ StronglySorted (item_le kleb (ir_key r) (is_descending (ir_order r))) (ds_rows d)
      /\ (forall k, filter (has_key kleb (ir_key r) k) (ds_rows d) = filter (has_key kleb (ir_key r) k) (ds_rows d0))
      /\ ds_model d = ds_model d0.
Proof. exact (@step_sort). Qed.
Print Assumptions C11_step_sort.

(* 5b. HISTORY INDEPENDENCE.  One index row hands the next nothing but the registry; an operation
   looks only at what is registered under the names it reads ([reads]: every sheet name for a
   concat, the first one for filter/sort).  So the sheet a row produces is the same in any two
   states that agree on these names ... *)
Theorem C11_result_depends_only_on_sources :
  forall (I R K : Type) (ieqb : I -> I -> bool) (kleb : K -> K -> bool) (rid : R -> I)
         (raw : str -> bool -> option (list R)) (model_defined : str -> bool)
         (a b : @state I R) (r : @irow R K),
    agree_on (reads r) a b ->
    op_result ieqb kleb rid raw model_defined a r = op_result ieqb kleb rid raw model_defined b r.
Proof. exact (@op_result_local). Qed.
Print Assumptions C11_result_depends_only_on_sources.

(* ... in particular in the state that holds nothing but these names (the operation "in isolation") *)
Theorem C11_result_in_isolation :
  forall (I R K : Type) (ieqb : I -> I -> bool) (kleb : K -> K -> bool) (rid : R -> I)
         (raw : str -> bool -> option (list R)) (model_defined : str -> bool)
         (st : @state I R) (r : @irow R K),
    op_result ieqb kleb rid raw model_defined (restrict (reads r) st) r = op_result ieqb kleb rid raw model_defined st r.
Proof. exact (@op_result_isolated). Qed.
Print Assumptions C11_result_in_isolation.

(* ... and at EVERY position of EVERY chain the sheet registered is the result of that row on
   the sources registered at that moment, taken alone: nothing computed earlier - for the same
   row text or any other - is an input; it lands under the row's target and nothing else moves *)
Theorem C11_history_independence :
  forall (I R K : Type) (ieqb : I -> I -> bool) (kleb : K -> K -> bool) (rid : R -> I)
         (raw : str -> bool -> option (list R)) (model_defined : str -> bool)
         (rows : list (@irow R K)) (st : @state I R) k s',
    nth_error (scan ieqb kleb rid raw model_defined rows st) k = Some (Ok s') ->
    exists s r d,
      run ieqb kleb rid raw model_defined (firstn k rows) st = Ok s /\ nth_error rows k = Some r
      /\ op_result ieqb kleb rid raw model_defined (restrict (reads r) s) r = Ok (d, next_stamp s')
      /\ oget str_eqb (reg s') (target r) = Some d
      /\ (forall name, name <> target r -> oget str_eqb (reg s') name = oget str_eqb (reg s) name).
Proof. exact (@scan_history_independent). Qed.
Print Assumptions C11_history_independence.

(* a chain that reads and writes only [names] is a function of the [names]-part of the state it
   starts in, including whether and with which error it stops *)
Theorem C11_chain_frame :
  forall (I R K : Type) (ieqb : I -> I -> bool) (kleb : K -> K -> bool) (rid : R -> I)
         (raw : str -> bool -> option (list R)) (model_defined : str -> bool)
         (names : list str) (rows : list (@irow R K)) (a b : @state I R),
    agree_on names a b -> Forall (confined names) rows ->
    res_agree names (run ieqb kleb rid raw model_defined rows a) (run ieqb kleb rid raw model_defined rows b).
Proof. exact (@run_frame). Qed.
Print Assumptions C11_chain_frame.

(* the minimal-history oracle of the harness: an earlier row whose target nobody reads (and which
   inferred no row model) can be cut out of the history without changing anything under [names] *)
Theorem C11_drop_unread_row :
  forall (I R K : Type) (ieqb : I -> I -> bool) (kleb : K -> K -> bool) (rid : R -> I)
         (raw : str -> bool -> option (list R)) (model_defined : str -> bool)
         (names : list str) (r : @irow R K) (post : list (@irow R K)) (st st1 : @state I R),
    step ieqb kleb rid raw model_defined st r = Ok st1 -> next_stamp st1 = next_stamp st ->
    ~ In (target r) names -> Forall (confined names) post ->
    res_agree names (run ieqb kleb rid raw model_defined post st1) (run ieqb kleb rid raw model_defined post st).
Proof. exact (@drop_unread_row). Qed.
Print Assumptions C11_drop_unread_row.

(* a row applied again (under whatever new name) yields the same sheet as before if its sources
   are registered as they were then - and by C11_history_independence the CURRENT registration
   decides otherwise: this is what a result memo keyed by the source name gets wrong *)
Theorem C11_repeat_same_sources :
  forall (I R K : Type) (ieqb : I -> I -> bool) (kleb : K -> K -> bool) (rid : R -> I)
         (raw : str -> bool -> option (list R)) (model_defined : str -> bool)
         (st st2 : @state I R) (r : @irow R K) (new : str),
    is_empty new = is_empty (ir_new_name r) -> agree_on (reads r) st st2 ->
    op_result ieqb kleb rid raw model_defined st2 (retarget r new) = op_result ieqb kleb rid raw model_defined st r.
Proof. exact (@repeat_same_sources). Qed.
Print Assumptions C11_repeat_same_sources.

(* what the harness compares: element k of [scan] is the run of the first k+1 rows *)
Theorem C11_scan_is_prefix_runs :
  forall (I R K : Type) (ieqb : I -> I -> bool) (kleb : K -> K -> bool) (rid : R -> I)
         (raw : str -> bool -> option (list R)) (model_defined : str -> bool)
         (rows : list (@irow R K)) (st : @state I R) k s,
    nth_error (scan ieqb kleb rid raw model_defined rows st) k = Some (Ok s) ->
    run ieqb kleb rid raw model_defined (firstn (S k) rows) st = Ok s.
Proof. exact (@scan_prefix). Qed.
Print Assumptions C11_scan_is_prefix_runs.

(* 6. the export lists exactly the rows of every registered sheet, in order, each id once *)
Theorem C11_to_dict_lists_exactly :
  forall (I R J : Type) (todict : R -> J) (st : @state I R) name (d : @dsheet I R),
    oget str_eqb (reg st) name = Some d ->
    oget str_eqb (data_sheets_to_dict todict st) name = Some (map todict (@ovalues I R (ds_rows d))).
Proof. exact (@to_dict_lists_exactly). Qed.
Print Assumptions C11_to_dict_lists_exactly.

Theorem C11_to_dict_names :
  forall (I R J : Type) (todict : R -> J) (st : @state I R),
    okeys (data_sheets_to_dict todict st) = okeys (reg st).
Proof. exact (@to_dict_names). Qed.
Print Assumptions C11_to_dict_names.

Theorem C11_exported_ids_once :
  forall (I R : Type) (rid : R -> I) (st : @state I R) name (d : @dsheet I R),
    reg_inv rid st -> oget str_eqb (reg st) name = Some d ->
    map rid (@ovalues I R (ds_rows d)) = okeys (ds_rows d) /\ NoDup (map rid (@ovalues I R (ds_rows d))).
Proof. exact (@exported_ids_once). Qed.
Print Assumptions C11_exported_ids_once.

(* the regenerated operation words are what the dispatch proofs need *)
Theorem C11_tables_ok : dop_tables_ok = true.
Proof. exact dop_tables_ok_true. Qed.
Print Assumptions C11_tables_ok.

(* non-vacuity: a concat with a duplicate id across sources, a proper filter and a
   descending sort with ties, on a concrete instance *)
Example C11_concat_nonvacuous : Ex.run [Ex.r_concat] init_state = Ok Ex.st1.
Proof. exact ex_concat. Qed.
Print Assumptions C11_concat_nonvacuous.

Example C11_filter_nonvacuous :
  Ex.step Ex.st1 Ex.r_filter
  = Ok (mk_state [(Ex.sc, mk_dsheet [(1, 12); (2, 22); (3, 31); (4, 41)] (MExplicit Ex.mM));
                  (Ex.sd, mk_dsheet [(3, 31); (4, 41)] (MExplicit Ex.mM))] 0)%N.
Proof. exact ex_filter. Qed.
Print Assumptions C11_filter_nonvacuous.

Example C11_sort_desc_nonvacuous :
  Ex.step Ex.st1 Ex.r_sort_desc
  = Ok (mk_state [(Ex.sc, mk_dsheet [(1, 12); (2, 22); (3, 31); (4, 41)] (MExplicit Ex.mM));
                  (Ex.se, mk_dsheet [(1, 12); (2, 22); (3, 31); (4, 41)] (MExplicit Ex.mM))] 0)%N.
Proof. exact ex_sort_desc. Qed.
Print Assumptions C11_sort_desc_nonvacuous.

(* the history a name-keyed memo gets wrong: filter of a sheet that is not registered yet, a concat
   registered under that very name, the same filter again: the second filter sees the concat *)
Example C11_repeat_after_first_registration_nonvacuous :
  exists st, Ex.run [ExH.r_f1; ExH.r_reg; ExH.r_f2] init_state = Ok st
    /\ ExH.rows_of Ex.sd st = Some [(2, 21)]%N
    /\ ExH.rows_of Ex.sa st = Some [(1, 12); (2, 22); (3, 31); (4, 41)]%N
    /\ ExH.rows_of Ex.se st = Some [(3, 31); (4, 41)]%N.
Proof. exact ex_repeat_after_first_registration. Qed.
Print Assumptions C11_repeat_after_first_registration_nonvacuous.
