(* C11 — data-sheet concat, filter and sort do exactly that, and never touch their source. *)
From Coq Require Import List NArith Bool.
From RPFT Require Import Base.Sexp Base.PyStr Base.ODict Base.Result Gen.Tables Index.DataOps Index.DataOpsFacts.
Import ListNotations.

Theorem C11_tables_ok :
  (negb (str_eqb dop_word_concat dop_word_filter) && negb (str_eqb dop_word_concat dop_word_sort)
   && negb (str_eqb dop_word_filter dop_word_sort)
   && negb (is_empty dop_word_concat) && negb (is_empty dop_word_filter) && negb (is_empty dop_word_sort)
   && forallb (fun nd => is_empty (snd nd)) dop_operation_fields) = true.
Proof. exact dop_tables_ok_true. Qed.
Print Assumptions C11_tables_ok.
