(* C19 — placeholder until the facts are in (replaced below in the same branch) *)
From Coq Require Import List NArith Bool.
From RPFT Require Import Base.Sexp Base.Result Gen.Tables Index.Campaign.
Import ListNotations.
