(* C19 — campaign and trigger sheets compile row for row into resolvable definitions.
   Only property theorems here, each closed by [exact] and followed by Print Assumptions.
   The enum lists, field lists and constants the statements mention are the ones
   REGENERATED from the current /repo tree (Gen/Tables.v).
   Items 1-2 are near-definitional in a model whose parser is a map over the rows: their
   weight is in the tie (harness/c19.py) and in item 3 being re-checked against the tables
   the code has now. *)
From Coq Require Import List NArith ZArith Bool.
From RPFT Require Import Base.Sexp Base.PyStr Base.Result Gen.Tables
  Index.Names Index.Campaign Index.Trigger Index.CampTrigIndex Index.CampTrigFacts.
Import ListNotations.
Local Open Scope N_scope.

(* 1. every row of a campaign sheet becomes exactly one event, in order, with the fields as
      written ([event_spec] spells them out: offset, unit, delivery hour or the default,
      start mode, relative-to label and derived key, message + base language, flow) *)
Theorem C19_campaign_rowwise : forall rows evs, parse_campaign rows = Ok evs ->
  length evs = length rows /\
  Forall2 event_spec rows evs /\
  forall i r, nth_error rows i = Some r ->
    exists e, nth_error evs i = Some e /\ event_of_row r = Ok e.
Proof. exact campaign_rowwise. Qed.
Print Assumptions C19_campaign_rowwise.

Theorem C19_event_of_row_spec : forall r e, event_of_row r = Ok e <-> event_spec r e.
Proof. exact event_of_row_spec. Qed.
Print Assumptions C19_event_of_row_spec.

Theorem C19_campaign_rowwise_complete : forall rows evs,
  Forall2 event_spec rows evs -> parse_campaign rows = Ok evs.
Proof. exact campaign_rowwise_complete. Qed.
Print Assumptions C19_campaign_rowwise_complete.

Theorem C19_campaign_sheet_rowwise : forall raws evs, parse_campaign_sheet raws = Ok evs ->
  length evs = length raws /\
  exists rows, Forall2 (fun raw row => validate_camp_row raw = Ok row) raws rows /\
               Forall2 event_spec rows evs.
Proof. exact campaign_sheet_rowwise. Qed.
Print Assumptions C19_campaign_sheet_rowwise.

(* the delivery hour of a row without one is -1 in the code as it is now *)
Theorem C19_default_hour : default_delivery_hour = (-1)%Z.
Proof. exact default_hour_minus_one. Qed.
Print Assumptions C19_default_hour.

(* 2. every row of a trigger sheet becomes exactly one trigger, in order *)
Theorem C19_trigger_rowwise : forall rows ts, parse_triggers rows = Ok ts ->
  length ts = length rows /\
  Forall2 trigger_spec rows ts /\
  forall i r, nth_error rows i = Some r ->
    exists t, nth_error ts i = Some t /\ trigger_of_row r = Ok t.
Proof. exact trigger_rowwise. Qed.
Print Assumptions C19_trigger_rowwise.

Theorem C19_trigger_of_row_spec : forall r t, trigger_of_row r = Ok t <-> trigger_spec r t.
Proof. exact trigger_of_row_spec. Qed.
Print Assumptions C19_trigger_of_row_spec.

Theorem C19_trigger_sheet_rowwise : forall raws ts, parse_trigger_sheet raws = Ok ts ->
  length ts = length raws /\
  exists rows, Forall2 (fun raw row => validate_trig_row raw = Ok row) raws rows /\
               Forall2 trigger_spec rows ts.
Proof. exact trigger_sheet_rowwise. Qed.
Print Assumptions C19_trigger_sheet_rowwise.

(* 3. invalid values are rejected, at every row position *)
Theorem C19_campaign_invalid_rejected : forall raws r,
  In r raws -> camp_enum_invalid r -> exists e, parse_campaign_sheet raws = Err e.
Proof. exact campaign_invalid_rejected. Qed.
Print Assumptions C19_campaign_invalid_rejected.

Theorem C19_message_without_text_rejected : forall raws r t m,
  In r raws -> cr_event_type r = Some t -> In (strip t) event_types_needing_message ->
  cr_message r = Some m -> strip m = [] ->
  exists e, parse_campaign_sheet raws = Err e.
Proof. exact campaign_sheet_no_text_rejected. Qed.
Print Assumptions C19_message_without_text_rejected.

Theorem C19_trigger_invalid_rejected : forall raws r,
  In r raws -> trig_enum_invalid r -> exists e, parse_trigger_sheet raws = Err e.
Proof. exact trigger_invalid_rejected. Qed.
Print Assumptions C19_trigger_invalid_rejected.

Theorem C19_keyword_trigger_without_keyword_rejected : forall rows r,
  In r rows -> fst (kw_rule (t_type r)) = true ->
  (t_keywords r = [] \/ exists ks, t_keywords r = [] :: ks) ->
  exists e, parse_triggers rows = Err e.
Proof. exact trigger_no_keyword_rejected. Qed.
Print Assumptions C19_keyword_trigger_without_keyword_rejected.

(* the clauses above are not empty: every validator the property names still has a list,
   some trigger type constrains the match type, message events exist, -1 is the default
   hour, the row models have the fields (and kinds) the model reads *)
Theorem C19_tables_ok : c19_tables_ok = true.
Proof. exact c19_tables_ok_true. Qed.
Print Assumptions C19_tables_ok.

(* the derived key *)
Theorem C19_field_key_spec : forall name k, generate_field_key name = Ok k <->
  k = map (fun c => if c =? 32 then 95 else c) (lower (strip name)) /\
  (length k <= field_key_max_len)%nat /\
  exists c, In c k /\ is_key_letter c = true.
Proof. exact field_key_spec. Qed.
Print Assumptions C19_field_key_spec.

Theorem C19_field_key_no_space : forall name k, generate_field_key name = Ok k -> ~ In 32 k.
Proof. exact field_key_no_space. Qed.
Print Assumptions C19_field_key_no_space.

Theorem C19_field_key_no_upper : forall name k c,
  generate_field_key name = Ok k -> In c k -> ~ (65 <= c <= 90).
Proof. exact field_key_no_upper. Qed.
Print Assumptions C19_field_key_no_upper.

(* 1+2 at the level of a whole content index: every compiled campaign is one campaign sheet
   of the index row for row, the triggers are the trigger sheets row for row, and every
   trigger's flow is known to the container (4: resolution itself is C06) *)
Theorem C19_compile_rowwise : forall e idx known cs ts,
  compile e idx known = Ok (cs, ts) ->
  Forall (campaign_rowwise_from e) cs /\
  (exists tss, ts = List.concat tss /\ Forall (triggers_rowwise_from e) tss) /\
  Forall (fun t => In (g_flow t) (known ++ campaign_flow_names cs)) ts.
Proof. exact compile_rowwise. Qed.
Print Assumptions C19_compile_rowwise.

(* 3 at the level of a whole content index: any index row, any row position; an overwritten
   or ignored definition does not hide the invalid value *)
Theorem C19_compile_campaign_invalid_rejected : forall e idx known sheet new group raws r,
  In (ICampaign sheet new group) idx -> assoc sheet (camp_sheets e) = Some raws ->
  In r raws -> camp_enum_invalid r -> exists err, compile e idx known = Err err.
Proof. exact compile_campaign_invalid_rejected. Qed.
Print Assumptions C19_compile_campaign_invalid_rejected.

Theorem C19_compile_trigger_invalid_rejected : forall e idx known sheet raws r,
  In (ITriggers sheet) idx -> assoc sheet (trig_sheets e) = Some raws ->
  In r raws -> trig_enum_invalid r -> exists err, compile e idx known = Err err.
Proof. exact compile_trigger_invalid_rejected. Qed.
Print Assumptions C19_compile_trigger_invalid_rejected.

(* ---- non-vacuity: concrete inputs satisfying the hypotheses (computed over the
        regenerated tables) ---- *)
Definition ex_raw (unit etype msg : str) : camp_raw :=
  {| cr_uuid := None; cr_offset := Some [49; 53]; cr_unit := Some unit;
     cr_event_type := Some etype; cr_delivery_hour := None; cr_message := Some msg;
     cr_relative_to := Some [67; 114; 101; 97; 116; 101; 100; 32; 79; 110];
     cr_start_mode := Some [73]; cr_flow := Some [102; 49]; cr_base_language := None |}.

(* two valid rows (a flow event and a message event) compile to two events; the first has
   offset 15, hour -1 and key "created_on" *)
Example C19_campaign_rowwise_nonvacuous :
  exists evs, parse_campaign_sheet [ex_raw [72] [70] []; ex_raw [32; 68] [77] [104; 105]] = Ok evs /\
              length evs = 2%nat /\
              option_map ev_offset (nth_error evs 0) = Some 15%Z /\
              option_map ev_hour (nth_error evs 0) = Some (-1)%Z /\
              option_map ev_key (nth_error evs 0) = Some [99; 114; 101; 97; 116; 101; 100; 95; 111; 110] /\
              option_map ev_message (nth_error evs 1) = Some (Some (message_lang_key, [104; 105])).
Proof. eexists. vm_compute. repeat split. Qed.
Print Assumptions C19_campaign_rowwise_nonvacuous.

(* an invalid unit ("?") in the second row satisfies camp_enum_invalid *)
Example C19_invalid_rejected_nonvacuous :
  camp_enum_invalid (ex_raw [63] [70] []) /\
  exists e, parse_campaign_sheet [ex_raw [72] [70] []; ex_raw [63] [70] []] = Err e.
Proof.
  split.
  - apply (camp_unit_invalid_witness _ [63]); [reflexivity|vm_compute; reflexivity].
  - eexists. vm_compute. reflexivity.
Qed.
Print Assumptions C19_invalid_rejected_nonvacuous.

(* a message event whose text is blank *)
Example C19_message_without_text_nonvacuous :
  exists e, parse_campaign_sheet [ex_raw [72] [77] [32; 32]] = Err e.
Proof. eexists. vm_compute. reflexivity. Qed.
Print Assumptions C19_message_without_text_nonvacuous.

Definition ex_traw (type kws mt : str) : trig_raw :=
  {| tr_type := Some type; tr_keywords := Some kws; tr_flow := Some [102; 49];
     tr_groups := Some [71; 49; 59; 71; 50]; tr_exclude_groups := None; tr_channel := None;
     tr_match_type := Some mt |}.

(* a keyword trigger "a;b" with groups "G1;G2": one trigger, keywords [a; b], match type
   defaulted; a match type outside the keyword list is rejected; so is a type outside the list *)
Example C19_trigger_rowwise_nonvacuous :
  (exists ts, parse_trigger_sheet [ex_traw [75] [97; 59; 98] []] = Ok ts /\
              option_map g_keywords (nth_error ts 0) = Some [[97]; [98]] /\
              option_map g_groups (nth_error ts 0) = Some [[71; 49]; [71; 50]] /\
              option_map g_match_type (nth_error ts 0) = Some (Some [70])) /\
  trig_enum_invalid (ex_traw [75] [97] [90]) /\
  (exists e, parse_trigger_sheet [ex_traw [67] [] []; ex_traw [75] [97] [90]] = Err e) /\
  (exists e, parse_trigger_sheet [ex_traw [63] [97] []] = Err e).
Proof.
  split; [eexists; vm_compute; repeat split|]. split.
  - apply (trig_match_type_invalid_witness _ [75] [90]); [reflexivity|reflexivity|vm_compute; reflexivity].
  - split; eexists; vm_compute; reflexivity.
Qed.
Print Assumptions C19_trigger_rowwise_nonvacuous.

(* 1+2, independence: what a row becomes does not depend on the rows around it. A sheet that
   is two sheets one after the other compiles exactly when both do, to the two results one
   after the other (so every prefix of a sheet compiles to the prefix of the events) *)
Theorem C19_campaign_rows_independent : forall a b evs, parse_campaign_sheet (a ++ b) = Ok evs <->
  exists ea eb, parse_campaign_sheet a = Ok ea /\ parse_campaign_sheet b = Ok eb /\ evs = ea ++ eb.
Proof. exact campaign_sheet_rows_independent. Qed.
Print Assumptions C19_campaign_rows_independent.

Theorem C19_trigger_rows_independent : forall a b ts, parse_trigger_sheet (a ++ b) = Ok ts <->
  exists ta tb, parse_trigger_sheet a = Ok ta /\ parse_trigger_sheet b = Ok tb /\ ts = ta ++ tb.
Proof. exact trigger_sheet_rows_independent. Qed.
Print Assumptions C19_trigger_rows_independent.

(* 3, sharpened: the sheet stops AT the first offending row, with that row's error, whatever
   follows it.  (The tie compares Ok/Err and the compiled arrays, not the error kind: which
   error is reported is a statement about the model only.) *)
Theorem C19_campaign_first_offending_row : forall a r b ea e,
  parse_campaign a = Ok ea -> event_of_row r = Err e -> parse_campaign (a ++ r :: b) = Err e.
Proof. exact campaign_first_offending_row. Qed.
Print Assumptions C19_campaign_first_offending_row.

Theorem C19_trigger_first_offending_row : forall a r b ta e,
  parse_triggers a = Ok ta -> trigger_of_row r = Err e -> parse_triggers (a ++ r :: b) = Err e.
Proof. exact trigger_first_offending_row. Qed.
Print Assumptions C19_trigger_first_offending_row.

(* two one-row sheets that both compile, and their concatenation *)
Example C19_rows_independent_nonvacuous :
  exists ea eb, parse_campaign_sheet [ex_raw [72] [70] []] = Ok ea /\
                parse_campaign_sheet [ex_raw [68] [70] []] = Ok eb /\
                parse_campaign_sheet [ex_raw [72] [70] []; ex_raw [68] [70] []] = Ok (ea ++ eb) /\
                length (ea ++ eb) = 2%nat.
Proof. eexists. eexists. vm_compute. repeat split. Qed.
Print Assumptions C19_rows_independent_nonvacuous.
