(* C05 — loading and re-writing a RapidPro export is lossless.
   Only property theorems here, each closed by [exact] and followed by Print Assumptions.
   load/render/roundtrip: Exp/Load.v, Exp/Render.v (mirrors of the Python);  xdoc/emit/norm:
   Exp/ExportDoc.v (the supported schema in canonical order, and the tolerated differences). *)
From Coq Require Import List NArith ZArith Bool.
From RPFT Require Import Base.Sexp Base.PyStr Base.Result Base.Json Gen.Tables
  Exp.Load Exp.Render Exp.ExportDoc Exp.ExportFacts Exp.CaseFacts Exp.GroupFacts Exp.ExitFacts.
Import ListNotations.

(* ---- per-class round trips: render (load (emit x)) = norm (emit x) *)
Theorem C05_exit_roundtrip : forall x,
  wf_exit x -> rmap render_exit (load_exit (emit_exit x)) = Ok (norm_exit (emit_exit x)).
Proof. exact exit_roundtrip. Qed.
Print Assumptions C05_exit_roundtrip.

(* every action kind of action_map, pass-through kinds with arbitrary members included.
   [typed_field_ok a] is [True] on a tree that carries the repair "a typed contact field
   reference renders its own type" (probe fieldref_renders_own_type, regenerated from the code
   under check) and [untyped_field a] on a tree that does not: see the two corollaries. *)
Theorem C05_action_roundtrip : forall a,
  wf_action a -> typed_field_ok a ->
  bind (load_action (emit_action a)) render_action = Ok (norm_action (emit_action a)).
Proof. exact action_roundtrip. Qed.
Print Assumptions C05_action_roundtrip.

(* the repaired tree: no restriction on field references *)
Theorem C05_action_roundtrip_repaired :
  fieldref_renders_own_type = true ->
  forall a, wf_action a ->
  bind (load_action (emit_action a)) render_action = Ok (norm_action (emit_action a)).
Proof. exact action_roundtrip_repaired. Qed.
Print Assumptions C05_action_roundtrip_repaired.

(* either tree: field references without a (truthy) type *)
Theorem C05_action_roundtrip_untyped : forall a,
  wf_action a -> untyped_field a ->
  bind (load_action (emit_action a)) render_action = Ok (norm_action (emit_action a)).
Proof. exact action_roundtrip_untyped. Qed.
Print Assumptions C05_action_roundtrip_untyped.

Example C05_action_roundtrip_nonvacuous :
  let a := XSend (s1 1) (s1 2) [s1 3; JStr []] (JArr []) (Some (JBool false)) None None in
  let b := XSetField (s1 1) {| xf_name := s1 65; xf_key := s1 97; xf_type := Some (s1 116) |} (s1 53) in
  (wf_action a /\ typed_field_ok a /\ untyped_field a /\ norm_action (emit_action a) <> emit_action a)
  /\ (wf_action b /\ ~ untyped_field b /\ (fieldref_renders_own_type = true -> typed_field_ok b)).
Proof. exact action_roundtrip_nonvacuous. Qed.
Print Assumptions C05_action_roundtrip_nonvacuous.

Theorem C05_trigger_roundtrip : forall t,
  wf_trigger t -> wf_channel t ->
  rmap render_trigger (load_trigger (emit_trigger t)) = Ok (norm_trigger (emit_trigger t)).
Proof. exact trigger_roundtrip. Qed.
Print Assumptions C05_trigger_roundtrip.

(* ---- legacy single-keyword triggers come out carrying both forms *)
Theorem C05_legacy_keyword : forall t kw,
  xq_kw t = KwLegacy kw -> wf_trigger t ->
  exists c, load_trigger (emit_trigger t) = Ok c
            /\ jfield (emit_trigger t) k_keywords = None
            /\ jfield (render_trigger c) k_keyword = Some kw
            /\ jfield (render_trigger c) k_keywords = Some (JArr (if is_null kw then [] else [kw])).
Proof. exact legacy_keyword. Qed.
Print Assumptions C05_legacy_keyword.

(* ---- the regenerated tables are what the mirror assumes *)
Theorem C05_action_tables_ok : action_tables_ok = true.
Proof. exact action_tables_ok_true. Qed.
Print Assumptions C05_action_tables_ok.

Theorem C05_render_keys_ok : render_keys_ok = true.
Proof. exact render_keys_ok_true. Qed.
Print Assumptions C05_render_keys_ok.

(* ---- the two repaired defects: the witness documents that recorded them are reproduced exactly
   when the tree under check carries the repair (regenerated probes) *)
Theorem C05_typed_field_witness :
  if fieldref_renders_own_type then roundtrip w_typed_field = Ok (norm w_typed_field)
  else roundtrip w_typed_field <> Ok (norm w_typed_field).
Proof. exact typed_field_witness. Qed.
Print Assumptions C05_typed_field_witness.

Theorem C05_group_attrs_witness :
  if validate_keeps_group_attrs then roundtrip w_group_attrs = Ok (norm w_group_attrs)
  else roundtrip w_group_attrs <> Ok (norm w_group_attrs).
Proof. exact group_attrs_witness. Qed.
Print Assumptions C05_group_attrs_witness.

(* ---- the container's own groups (repair "validate() keeps query/status/system/count of the
   container's groups").  [kept_group g] is [g] on a tree that carries the repair (probe
   validate_keeps_group_attrs, regenerated from the code under check) and Group(name, uuid) on a
   tree that does not; likewise [kept_top] on the document side. *)

(* a top-level group with any subset of its optional attributes, null or not: per-class round trip *)
Theorem C05_top_group_roundtrip : forall g,
  rmap render_group (load_group (emit_top g)) = Ok (norm_group (emit_top g)).
Proof. exact top_group_roundtrip. Qed.
Print Assumptions C05_top_group_roundtrip.

Theorem C05_group_tables_ok : group_tables_ok = true.
Proof. exact group_tables_ok_true. Qed.
Print Assumptions C05_group_tables_ok.

(* validate(), whatever else the container holds (flows, campaigns, triggers with any number of
   references to the same or other groups): its own groups come first, in order; groups that are
   only referenced follow *)
Theorem C05_validate_keeps_groups : forall c c',
  own_groups_ok (ct_groups c) -> validate c = Ok c' ->
  exists referenced, ct_groups c' = map kept_group (ct_groups c) ++ referenced.
Proof. exact validate_keeps_groups. Qed.
Print Assumptions C05_validate_keeps_groups.

Theorem C05_validate_keeps_groups_repaired :
  validate_keeps_group_attrs = true ->
  forall c c', own_groups_ok (ct_groups c) -> validate c = Ok c' ->
  exists referenced, ct_groups c' = ct_groups c ++ referenced.
Proof. exact validate_keeps_groups_repaired. Qed.
Print Assumptions C05_validate_keeps_groups_repaired.

Example C05_validate_keeps_groups_nonvacuous :
  exists c c', from_dict w_groups_mixed = Ok c /\ own_groups_ok (ct_groups c) /\ validate c = Ok c'
               /\ length (ct_groups c) = 2 /\ length (ct_groups c') = 3
               /\ roundtrip w_groups_mixed
                  = Ok (if validate_keeps_group_attrs then
                          upd k_groups (fun g => match g with JArr l => JArr (l ++ [JObj [(k_name, s1 82); (k_uuid, s1 114)]]) | _ => g end)
                              (norm w_groups_mixed)
                        else upd k_groups (fun _ => JArr [JObj [(k_name, s1 71); (k_uuid, s1 103)];
                                                          JObj [(k_name, s1 72); (k_uuid, s1 104)];
                                                          JObj [(k_name, s1 82); (k_uuid, s1 114)]])
                                 (norm w_groups_mixed)).
Proof. exact validate_keeps_groups_nonvacuous. Qed.
Print Assumptions C05_validate_keeps_groups_nonvacuous.

(* whole-document theorem for exports that consist of groups: from_dict -> validate -> render *)
Theorem C05_groups_doc_roundtrip : forall gs fields site version,
  tops_ok gs -> truthy site = true ->
  roundtrip (emit (groups_doc gs fields site version))
  = Ok (norm (emit (groups_doc (map kept_top gs) fields site version))).
Proof. exact groups_doc_roundtrip. Qed.
Print Assumptions C05_groups_doc_roundtrip.

Theorem C05_groups_doc_roundtrip_repaired :
  validate_keeps_group_attrs = true ->
  forall gs fields site version, tops_ok gs -> truthy site = true ->
  roundtrip (emit (groups_doc gs fields site version)) = Ok (norm (emit (groups_doc gs fields site version))).
Proof. exact groups_doc_roundtrip_repaired. Qed.
Print Assumptions C05_groups_doc_roundtrip_repaired.

Example C05_groups_doc_nonvacuous :
  tops_ok ex_tops /\ truthy (s1 115) = true
  /\ norm (emit (groups_doc ex_tops [] (s1 115) (s1 49))) <> emit (groups_doc ex_tops [] (s1 115) (s1 49))
  /\ own_groups_ok (map lower_top ex_tops).
Proof. exact groups_doc_nonvacuous. Qed.
Print Assumptions C05_groups_doc_nonvacuous.

(* ---- exits shared by categories (repair "an exit shared by several categories of a router is
   rendered once"; probe router_lists_shared_exit_once) *)
Theorem C05_shared_exit_witness :
  if router_lists_shared_exit_once then roundtrip w_shared_exit = Ok (norm w_shared_exit)
  else roundtrip w_shared_exit <> Ok (norm w_shared_exit).
Proof. exact shared_exit_witness. Qed.
Print Assumptions C05_shared_exit_witness.

(* the repaired get_exits never lists an exit twice, whatever the categories reference ... *)
Theorem C05_uniq_exits_once : forall l, exits_once (uniq_exits l).
Proof. exact uniq_exits_once. Qed.
Print Assumptions C05_uniq_exits_once.

Theorem C05_node_exits_once_repaired :
  router_lists_shared_exit_once = true -> forall n, n_router n <> None -> exits_once (exits_of n).
Proof. exact node_exits_once_repaired. Qed.
Print Assumptions C05_node_exits_once_repaired.

(* ... and changes nothing for a router whose categories have an exit each (on either tree) *)
Theorem C05_distinct_exits_unchanged : forall n r,
  n_router n = Some r -> exits_once (map c_exit (categories_of r)) -> exits_of n = map c_exit (categories_of r).
Proof. exact distinct_exits_unchanged. Qed.
Print Assumptions C05_distinct_exits_unchanged.

Example C05_exits_once_nonvacuous :
  n_router ex_shared_node <> None
  /\ ~ exits_once (map c_exit (categories_of (match n_router ex_shared_node with Some r => r | None => RRandom JNull [] end)))
  /\ uniq_exits [ex_exit 49; ex_exit 50; ex_exit 49] = [ex_exit 49; ex_exit 50]
  /\ exits_once [ex_exit 49; ex_exit 50] /\ uniq_exits [ex_exit 49; ex_exit 50] = [ex_exit 49; ex_exit 50].
Proof. exact exits_once_nonvacuous. Qed.
Print Assumptions C05_exits_once_nonvacuous.

(* ---- refutations: the full statement is false of the faithful model (open findings) *)
Theorem C05_category_order_refuted : roundtrip w_category_order <> Ok (norm w_category_order).
Proof. exact category_order_refuted. Qed.
Print Assumptions C05_category_order_refuted.

Theorem C05_exit_order_refuted : roundtrip w_exit_order <> Ok (norm w_exit_order).
Proof. exact exit_order_refuted. Qed.
Print Assumptions C05_exit_order_refuted.


(* the control: the same router in canonical order comes back unchanged *)
Theorem C05_canonical_control : roundtrip w_canonical = Ok (norm w_canonical) /\ norm w_canonical = w_canonical.
Proof. exact canonical_control. Qed.
Print Assumptions C05_canonical_control.

Theorem C05_witnesses_idempotent :
  forallb (fun w => match roundtrip w with
                    | Ok o => match roundtrip o with Ok o' => json_eqb o o' | Err _ => false end
                    | Err _ => false
                    end)
          [w_typed_field; w_group_attrs; w_groups_mixed; w_category_order; w_exit_order; w_shared_exit; w_canonical] = true.
Proof. exact witnesses_idempotent'. Qed.
Print Assumptions C05_witnesses_idempotent.

(* router cases: every test type, every argument list its validator accepts *)
Theorem C05_case_roundtrip : forall u t c args,
  u <> [] -> mem_str t test_names = true -> valid_case t args ->
  rmap render_case (load_case (emit_case u t c args)) = Ok (emit_case u t c args).
Proof. exact case_roundtrip. Qed.
Print Assumptions C05_case_roundtrip.

Example C05_case_roundtrip_nonvacuous :
  valid_case [104; 97; 115; 95; 112; 104; 111; 110; 101]%N [JStr [82; 87]%N]
  /\ mem_str [104; 97; 115; 95; 112; 104; 111; 110; 101]%N test_names = true
  /\ valid_case [104; 97; 115; 95; 116; 101; 120; 116]%N [].
Proof. exact case_roundtrip_nonvacuous. Qed.
Print Assumptions C05_case_roundtrip_nonvacuous.

(* the tests whose arguments from_dict drops are exactly tests that accept no argument (two
   regenerated tables: RouterCase.NO_ARGS_TESTS vs the validators of TEST_VALIDATIONS) *)
Theorem C05_no_args_tests_take_no_arguments : no_args_take_none = true.
Proof. exact no_args_take_none_true. Qed.
Print Assumptions C05_no_args_tests_take_no_arguments.
