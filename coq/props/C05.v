(* C05 — loading and re-writing a RapidPro export is lossless (placeholder, theorems follow) *)
