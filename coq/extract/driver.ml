(* Reads one S-expression per line (tokens: parentheses and naturals), applies the
   extracted [dispatch], prints the result on one line. *)
open Model

let rec pos_of_int n = if n = 1 then XH else if n land 1 = 0 then XO (pos_of_int (n lsr 1)) else XI (pos_of_int (n lsr 1))
let n_of_int n = if n = 0 then N0 else Npos (pos_of_int n)
let rec int_of_pos = function XH -> 1 | XO p -> 2 * int_of_pos p | XI p -> 2 * int_of_pos p + 1
let int_of_n = function N0 -> 0 | Npos p -> int_of_pos p

let parse (s : string) : sexp =
  let len = String.length s in
  let pos = ref 0 in
  let rec skip () = if !pos < len && (s.[!pos] = ' ' || s.[!pos] = '\n' || s.[!pos] = '\r') then (incr pos; skip ()) in
  let rec item () =
    skip ();
    if !pos >= len then failwith "eof"
    else if s.[!pos] = '(' then begin
      incr pos;
      let acc = ref [] in
      let rec loop () =
        skip ();
        if !pos >= len then failwith "eof in list"
        else if s.[!pos] = ')' then incr pos
        else (acc := item () :: !acc; loop ()) in
      loop (); L (List.rev !acc)
    end else begin
      let st = !pos in
      while !pos < len && s.[!pos] >= '0' && s.[!pos] <= '9' do incr pos done;
      if !pos = st then failwith "bad token";
      A (n_of_int (int_of_string (String.sub s st (!pos - st))))
    end in
  item ()

let rec print buf = function
  | A n -> Buffer.add_string buf (string_of_int (int_of_n n))
  | L l ->
    Buffer.add_char buf '(';
    List.iteri (fun i x -> if i > 0 then Buffer.add_char buf ' '; print buf x) l;
    Buffer.add_char buf ')'

let () =
  let buf = Buffer.create 65536 in
  try
    while true do
      let line = input_line stdin in
      Buffer.clear buf;
      (try print buf (dispatch (parse line)) with Failure m -> Buffer.add_string buf ("(999997)"));
      Buffer.add_char buf '\n';
      print_string (Buffer.contents buf);
      flush stdout
    done
  with End_of_file -> ()
