(* Extraction of the executable model.  ExtrOcamlBasic only: bool/option/unit/list/prod/
   sumbool map to OCaml's; nat, N, Z, positive stay inductive.  No Extract Constant. *)
Require Extraction.
Require Import ExtrOcamlBasic.
From RPFT Require Import Wire.Dispatch.
Extraction "model.ml" dispatch.
