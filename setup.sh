#!/bin/bash
# setup_cmd: build the framework from files on disk only (offline).
set -e
cd "$(dirname "$0")"
export PYTHONPATH=/repo/src PYTHONDONTWRITEBYTECODE=1 PYTHONHASHSEED=0
/venv/bin/python translator/gen_tables.py
python3 tools/gen_coqproject.py
cd coq
timeout 3000 make -k -j16 2>&1 | grep -v '^Warning\|^COQDEP' | tail -40
cd extract
timeout 600 coqc -Q ../theories RPFT Extract.v >/dev/null
timeout 600 ocamlfind ocamlopt -O3 -w -a model.mli model.ml driver.ml -o rpft_model 2>&1 | grep -v 'O3' || true
test -x rpft_model
echo "setup ok"
