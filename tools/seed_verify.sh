#!/bin/bash
# tools/seed_verify.sh <Cxx> [<tag>]  — confirm a seeded change produced by an independent sub-agent in /tmp/mut/<Cxx>:
#  (1) the patch applies to a clean scratch worktree of /repo HEAD, (2) the unedited suite passes with it,
#  (3) the demonstration passes on /repo and fails on the patched tree.  On success copies it to /verif/seeded/<Cxx>[-tag]/.
set -u
ID=$1; TAG=${2:-}; SRC=${MUTROOT:-/tmp/mut}/$ID/out; NAME=$ID${TAG:+-$TAG}
DST=/verif/seeded/$NAME; WT=/tmp/seedchk_$NAME
[ -f $SRC/patch.diff ] && [ -f $SRC/demo.py ] || { echo "missing deliverables in $SRC"; exit 2; }
git -C /repo worktree remove --force $WT 2>/dev/null; rm -rf $WT
git -C /repo worktree add --detach $WT HEAD >/dev/null 2>&1 || exit 2
trap 'git -C /repo worktree remove --force $WT >/dev/null 2>&1; rm -rf $WT' EXIT
git -C $WT apply $SRC/patch.diff || { echo "patch does not apply"; exit 2; }
cd $WT && SUITE=$(PYTHONPATH=$WT/src PYTHONDONTWRITEBYTECODE=1 /venv/bin/python -m pytest -q -p no:cacheprovider --timeout=900 2>&1 | tail -1)
echo "suite with patch: $SUITE"
T=$(mktemp -d); cd $T
PYTHONPATH=/repo/src PYTHONDONTWRITEBYTECODE=1 timeout 600 /venv/bin/python $SRC/demo.py >$T/clean.log 2>&1; RC_CLEAN=$?
PYTHONPATH=$WT/src PYTHONDONTWRITEBYTECODE=1 timeout 600 /venv/bin/python $SRC/demo.py >$T/mut.log 2>&1; RC_MUT=$?
echo "demo: clean rc=$RC_CLEAN  patched rc=$RC_MUT ($(tail -1 $T/mut.log | cut -c1-200))"
cd /; 
case "$SUITE" in *"219 passed"*) ;; *) echo "REJECT: suite"; rm -rf $T; exit 1;; esac
[ $RC_CLEAN = 0 ] && [ $RC_MUT != 0 ] || { echo "REJECT: demo"; rm -rf $T; exit 1; }
mkdir -p $DST && cp $SRC/patch.diff $SRC/demo.py $DST/ && cp $SRC/meta.json $DST/agent_meta.json 2>/dev/null
tail -3 $T/mut.log > $DST/demo_fails_with.txt; rm -rf $T
echo "CONFIRMED -> $DST"
