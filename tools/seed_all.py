#!/usr/bin/env python3
"""tools/seed_all.py [names...] — run every seeded change (seeded/<name>/patch.diff) through the check of its
property (tools/seed_run.sh, scratch worktree of /repo, RPFT_REPO) and record the outcome in seeded/<name>/meta.json.
A change that was first missed and is caught after a strengthening keeps the note of that history ("history" field);
the verdict of THIS run goes to "status"/"result"/"ran_at_verif_commit".  Run by hand, never at check time."""
import glob, json, os, subprocess, sys, time
HERE = os.path.dirname(os.path.dirname(os.path.abspath(__file__)))
names = sys.argv[1:] or sorted(os.path.basename(d) for d in glob.glob(os.path.join(HERE, "seeded", "*")))
head = subprocess.run(["git", "-C", HERE, "rev-parse", "--short", "HEAD"], capture_output=True, text=True).stdout.strip()
for name in names:
    d = os.path.join(HERE, "seeded", name)
    if not os.path.exists(os.path.join(d, "patch.diff")):
        continue
    mp = os.path.join(d, "meta.json")
    meta = json.load(open(mp)) if os.path.exists(mp) else {}
    ap = os.path.join(d, "agent_meta.json")
    if os.path.exists(ap):
        a = json.load(open(ap))
        for k in ("property", "summary", "needs_to_manifest", "why_tests_pass", "files_changed"):
            meta.setdefault(k, a.get(k))
    meta.setdefault("property", name.split("-")[0])
    meta.setdefault("origin", "independent sub-agent given only the property record and a scratch git worktree of /repo")
    meta.setdefault("confirmed_by", "tools/seed_verify.sh: patch applies to /repo HEAD in a scratch worktree, unedited suite 219 passed with it, demo.py exits 0 on /repo and non-zero on the patched tree")
    t0 = time.time()
    # "check_with": the change was asked for under one property but breaks a clause that another property states
    # (e.g. a hard exit inside a block: asked for under C02, it is C03's "never from a hard exit")
    run_prop = meta.get("check_with") or meta["property"]
    p = subprocess.run([os.path.join(HERE, "tools", "seed_run.sh"), name, run_prop], capture_output=True, text=True)
    lines = [l for l in p.stdout.splitlines() if l.strip()]
    viol = [l for l in lines if l.startswith("VIOLATION")]
    concrete = [l for l in viol if "no-failing-input-found" not in l]
    last = lines[-1] if lines else ""
    if p.returncode == 2 or "patch does not apply" in p.stdout + p.stderr:
        status, result = "stale", "the patch no longer applies to /repo HEAD (the code it edits was changed by a later fix: commit)"
    elif p.returncode != 0 and viol:
        status = "caught"
        result = ("caught: quick tier exit 1, %d VIOLATION line(s), %s" % (len(viol), "with a concrete failing input as replay" if concrete else "broken proof/correspondence, no-failing-input-found")) + "; " + last
    else:
        status, result = "missed", "missed: quick tier " + last
    prev = meta.get("status")
    if prev and prev not in (status, "pending") and not (prev == "caught-after-strengthening" and status == "caught"):
        meta.setdefault("history", []).append({"status": prev, "result": meta.get("result")})
    if prev == "caught-after-strengthening" and status == "caught":
        status = prev
        result = meta.get("result", "") if meta.get("result", "").startswith("missed first") else result
    meta.update(status=status, result=result, ran="tools/seed_run.sh %s %s (= RPFT_REPO=<scratch worktree with patch> ./check %s --tier quick)" % (name, run_prop, run_prop),
                ran_at_verif_commit=head, wall_s=round(time.time() - t0))
    json.dump(meta, open(mp, "w"), indent=1)
    print(name, status, "|", result[:160], flush=True)
