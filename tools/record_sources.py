#!/usr/bin/env python3
"""tools/record_sources.py — record, for every source file the properties are anchored in (properties.jsonl "anchors.files"),
the normalised-AST digest of each function/method of /repo's CURRENT working tree into translator/source_baseline.json.
Run by hand after a `fix:` commit in /repo once every check has been re-run and the models re-tied (never at check time).
harness/common.py: source_drift() compares the tree a check runs on with this baseline: functions that differ are listed in the
evidence and make the first pass of the correspondence/oracle run at a larger scale (a rewrite of modelled code is where the model
and the code can have parted company)."""
import json, os, subprocess, sys
if sys.executable != "/venv/bin/python" and os.path.exists("/venv/bin/python"):
    os.execv("/venv/bin/python", ["/venv/bin/python"] + sys.argv)   # ast.dump differs between Python versions: same interpreter as ./check
HERE = os.path.dirname(os.path.dirname(os.path.abspath(__file__)))
sys.path.insert(0, os.path.join(HERE, "harness"))
import srcdigest  # noqa: E402
repo = os.environ.get("RPFT_REPO", "/repo")
# the baseline says "the models are tied to THIS tree": refuse unless every check has run on it and held (evidence of each
# property written against the current commit of the tree, no violation) — `--force` overrides (say why in the commit message)
head = subprocess.run(["git", "-C", repo, "rev-parse", "--short", "HEAD"], capture_output=True, text=True).stdout.strip()
if "--force" not in sys.argv:
    bad = []
    for l in open(os.path.join(HERE, "properties.jsonl")):
        pid = json.loads(l)["id"]
        try:
            ev = json.load(open(os.path.join(HERE, "evidence", pid + ".json")))
            rt = ev["coverage"].get("repo_tree", {})
            if ev.get("violations") or rt.get("commit") != head or rt.get("modified_working_tree"):
                bad.append(f"{pid}: violations={ev.get('violations')} evidence written against {rt.get('commit')} (tree is at {head})")
        except Exception as e:
            bad.append(f"{pid}: {type(e).__name__}")
    if bad:
        print("NOT recorded: run every check on the current tree first\n  " + "\n  ".join(bad))
        sys.exit(1)
files = set()
for l in open(os.path.join(HERE, "properties.jsonl")):
    p = json.loads(l)
    files.update(f for f in p["anchors"].get("files", []) if f.endswith(".py"))
base = {"repo_commit": subprocess.run(["git", "-C", repo, "rev-parse", "--short", "HEAD"], capture_output=True, text=True).stdout.strip(),
        "files": {f: srcdigest.file_digests(os.path.join(repo, f)) for f in sorted(files)}}
json.dump(base, open(os.path.join(HERE, "translator", "source_baseline.json"), "w"), indent=1, sort_keys=True)
print("recorded", sum(len(v) for v in base["files"].values()), "functions of", len(base["files"]), "files at", base["repo_commit"])
