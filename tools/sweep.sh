#!/bin/bash
# tools/sweep.sh "<seeds>" "<props>" [tier] — run checks under several VERIF_SEED values on the unchanged tree (false-alarm hunt).
cd "$(dirname "$0")/.."
[ -x coq/extract/rpft_model ] || ./setup.sh >/dev/null 2>&1
TIER=${3:-quick}
for s in $1; do for p in $2; do
  out=$(VERIF_SEED=$s timeout 3000 ./check $p --tier $TIER 2>&1 | grep "VIOLATION\|exit" | cut -c1-160)
  echo "seed=$s $(echo "$out" | tail -1)"; echo "$out" | grep VIOLATION | head -3
done; done
