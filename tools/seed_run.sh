#!/bin/bash
# tools/seed_run.sh <seed-name> [<Cxx> [tier]] — run a check against a scratch worktree of /repo carrying seeded/<seed-name>/patch.diff
# (RPFT_REPO points the whole machinery — translator, correspondence, oracles — at that tree).  Runs in the seedrun worktree of /verif
# when it exists so that the lead's tree is not disturbed.  Prints the verdict lines; exit status of the check.
NAME=$1; PROP=${2:-${NAME%%-*}}; TIER=${3:-quick}
V=${SEEDRUN_V:-/tmp/wv/seedrun}; [ -d $V ] || V=/verif
WT=/tmp/seedrun_$NAME
git -C /repo worktree remove --force $WT 2>/dev/null; rm -rf $WT
git -C /repo worktree add --detach $WT HEAD >/dev/null 2>&1 || exit 2
git -C $WT apply /verif/seeded/$NAME/patch.diff || { echo "patch does not apply"; exit 2; }
cp $V/evidence/$PROP.json /tmp/seedrun_ev_$NAME.json 2>/dev/null   # the evidence file belongs to runs against /repo itself
cd $V && RPFT_REPO=$WT timeout 3000 ./check $PROP --tier $TIER 2>&1 | grep -v "pkg_resources\|^  import" | grep "VIOLATION\|exit\|KNOWN" | cut -c1-260 | tail -8
RC=${PIPESTATUS[0]}
[ -f /tmp/seedrun_ev_$NAME.json ] && mv /tmp/seedrun_ev_$NAME.json $V/evidence/$PROP.json
git -C /repo worktree remove --force $WT >/dev/null 2>&1; rm -rf $WT
exit $RC
