#!/usr/bin/env python3
"""Assembles MANIFEST.json from manifest.d/Cxx.json and known_findings.json from
findings.d/Cxx.json.  Run by hand after editing a fragment (never at check time)."""
import json, os
HERE = os.path.dirname(os.path.dirname(os.path.abspath(__file__)))
ALL = [f"C{i:02d}" for i in range(1, 20)]
NOT_YET = "machinery for this property is not built yet (planned; see DESIGN.md §8 build order)"

def main():
    checks, engines, na = [], [], []
    seen_eng = set()
    for pid in ALL:
        fp = os.path.join(HERE, "manifest.d", f"{pid}.json")
        if not os.path.exists(fp):
            na.append({"property_id": pid, "reason": NOT_YET})
            continue
        c = json.load(open(fp))
        if c.get("not_applicable"):
            na.append({"property_id": pid, "reason": c["not_applicable"]})
            continue
        checks.append({
            "property_id": pid,
            "quick_cmd": f"./check {pid} --tier quick",
            "thorough_cmd": f"./check {pid} --tier thorough",
            "evidence_file": f"/verif/evidence/{pid}.json",
            "replay_cmd_template": f"./check {pid} --replay {{path}}",
            "engine": c["engine"],
            "level_claimed": {"category": c["category"], "text": c["text"], "design_ref": c["design_ref"]},
            "level_note": c["note"],
            "technique": c["technique"],
        })
        for e in c.get("engines", []):
            if e["name"] not in seen_eng:
                seen_eng.add(e["name"])
                engines.append(e)
    hooks_fp = os.path.join(HERE, "manifest.d", "hooks.json")
    hooks = json.load(open(hooks_fp)) if os.path.exists(hooks_fp) else {
        "guard": "RPFT_VERIF",
        "enable": "no source hook exists: every observable is reachable from outside (DESIGN.md §7)",
        "baseline_off_cmd": "cd /repo && /venv/bin/python -m pytest -ra -q -p no:cacheprovider --timeout=900 --continue-on-collection-errors",
        "source_commits": [],
        "add_only": True,
    }
    man = {
        "version": 1,
        "setup_cmd": "./setup.sh",
        "hooks": hooks,
        "engines": engines,
        "checks": checks,
        "notes": "Technique: machine-checked proof in Coq 8.16.1; model tied to /repo by regenerated tables and differential correspondence (extracted OCaml model vs the Python implementation). See DESIGN.md.",
        "not_applicable": na,
    }
    json.dump(man, open(os.path.join(HERE, "MANIFEST.json"), "w"), indent=1)
    findings = []
    fdir = os.path.join(HERE, "findings.d")
    for fn in sorted(os.listdir(fdir)):
        if fn.endswith(".json"):
            findings += json.load(open(os.path.join(fdir, fn))).get("findings", [])
    json.dump({"_comment": "assembled from findings.d/*.json by tools/mkmanifest.py; never written at check time",
               "findings": findings}, open(os.path.join(HERE, "known_findings.json"), "w"), indent=1)

if __name__ == "__main__":
    main()
