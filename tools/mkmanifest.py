#!/usr/bin/env python3
"""Writes MANIFEST.json from the table below (one place to edit)."""
import json, os
HERE = os.path.dirname(os.path.dirname(os.path.abspath(__file__)))
ALL = [f"C{i:02d}" for i in range(1, 20)]

CHECKS = {
 "C08": dict(
    engine="E1 cell codec",
    category="proof",
    text=("Coq theorems over a Gallina mirror of CellParser (escape, scanner, cleanse, join): string and nested-list "
          "round trips for every value in the stated domain, string-vs-list characterisation, inertness of the escape "
          "filter, proved by structural induction with no size bound; constants regenerated from the source each run; "
          "mirror tied to the code by exhaustive small-scope + random differential execution of the extracted model."),
    design_ref="DESIGN.md §4-E1, §5-C08",
    note=("Trusted: Coq kernel, translator, ExtrOcamlBasic extraction + driver, harness; Jinja2 modelled only as "
          "'renders {{x|escape}} through escape_string' (checked behaviourally). parse() = strip+split is covered by the tie, "
          "the theorem is stated for split_into_lists."),
    technique="Coq proof (induction) + regenerated tables + differential correspondence (extracted OCaml vs Python)"),
}

NOT_YET = "machinery for this property is not built yet in this round (planned; see DESIGN.md §8 build order)"

def main():
    checks = []
    for pid in ALL:
        if pid not in CHECKS:
            continue
        c = CHECKS[pid]
        checks.append({
            "property_id": pid,
            "quick_cmd": f"./check {pid} --tier quick",
            "thorough_cmd": f"./check {pid} --tier thorough",
            "evidence_file": f"/verif/evidence/{pid}.json",
            "replay_cmd_template": f"./check {pid} --replay {{path}}",
            "engine": c["engine"],
            "level_claimed": {"category": c["category"], "text": c["text"], "design_ref": c["design_ref"]},
            "level_note": c["note"],
            "technique": c["technique"],
        })
    man = {
        "version": 1,
        "setup_cmd": "./setup.sh",
        "hooks": {
            "guard": "RPFT_VERIF",
            "enable": "no source hook exists: every observable is reachable from outside (DESIGN.md §7)",
            "baseline_off_cmd": "cd /repo && /venv/bin/python -m pytest -ra -q -p no:cacheprovider --timeout=900 --continue-on-collection-errors",
            "source_commits": [],
            "add_only": True,
        },
        "engines": [
            {"name": "E1 cell codec", "path": "coq/theories/Cell", "serves_properties": ["C08", "C07", "C09", "C16"],
             "kind_free_text": "Gallina model + proofs; extracted to OCaml for the correspondence"},
        ],
        "checks": checks,
        "notes": "Technique: machine-checked proof in Coq 8.16.1; model tied to /repo by regenerated tables and differential correspondence. See DESIGN.md.",
        "not_applicable": [{"property_id": p, "reason": NOT_YET} for p in ALL if p not in CHECKS],
    }
    with open(os.path.join(HERE, "MANIFEST.json"), "w") as f:
        json.dump(man, f, indent=1)

if __name__ == "__main__":
    main()
